#!/venv/bin/python
"""Developer tool: applies every mutant of selftest/mutants/ to a scratch worktree of /repo HEAD, runs the
repository's own tests on it (a mutant must pass them to be realistic) and the checks expected to catch it,
and writes selftest/results.json.   usage: run_mutants.py [name-substring ...]"""
import json
import os
import re
import subprocess
import sys
import tempfile
import time

HERE = os.path.dirname(os.path.abspath(__file__))
VERIF = os.path.dirname(HERE)
PY = "/venv/bin/python"


def sh(cmd, cwd=None, env=None, timeout=7200):
    r = subprocess.run(cmd, shell=True, cwd=cwd, env=env, capture_output=True, text=True, timeout=timeout)
    return r.returncode, r.stdout + r.stderr


def main():
    cat = json.load(open(os.path.join(HERE, "mutants", "catalogue.json")))
    only = sys.argv[1:]
    resp = os.path.join(HERE, "results.json")
    results = json.load(open(resp)) if os.path.exists(resp) else {}
    for name, meta in sorted(cat.items()):
        if only and not any(o in name for o in only):
            continue
        checks = meta.get("expect") or []
        if not checks:
            continue
        wt = tempfile.mkdtemp(prefix="mutwt_")
        os.rmdir(wt)
        rc, o = sh("git -C /repo worktree add -q --detach %s HEAD" % wt)
        try:
            rc, o = sh("git apply %s" % os.path.join(HERE, "mutants", name + ".diff"), cwd=wt)
            if rc != 0:
                results[name] = {"error": "patch does not apply"}
                continue
            env = dict(os.environ, PYTHONPATH=wt, PYTHONDONTWRITEBYTECODE="1")
            rc, o = sh("%s -m pytest -q -p no:cacheprovider --timeout=900 dds_tests 2>&1 | tail -2" % PY, cwd=wt, env=env)
            m = re.search(r"(\d+) passed", o)
            tests_ok = bool(m and int(m.group(1)) >= 59)
            res = {"subject": meta.get("subject") or meta.get("file"), "tests_pass": tests_ok, "checks": {}}
            for c in checks:
                t = time.time()
                rc, o = sh("%s run_check.py %s --tier quick" % (PY, c), cwd=VERIF, env=dict(os.environ, VERIF_REPO=wt))
                what = [l.strip()[:200] for l in o.splitlines() if l.strip().startswith("what:")][:2]
                res["checks"][c] = {"exit": rc, "secs": round(time.time() - t), "what": what}
            res["caught"] = any(v["exit"] == 1 for v in res["checks"].values())
            results[name] = res
            print(name, "tests_pass=%s" % tests_ok, {c: v["exit"] for c, v in res["checks"].items()}, (res["checks"][checks[0]]["what"] or [""])[0][:120], flush=True)
        finally:
            sh("git -C /repo worktree remove --force %s" % wt)
            sh("git checkout -- evidence", cwd=VERIF)
        json.dump(results, open(resp, "w"), indent=1, sort_keys=True)


if __name__ == "__main__":
    main()
