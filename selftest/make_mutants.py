#!/venv/bin/python
"""Developer tool: builds the self-test mutant catalogue (DESIGN.md 7) as patch files under
selftest/mutants/: (a) the reverse of every fix: commit of this work (a realistic regression),
(b) hand-written property-breaking edits.  Patches are made on a scratch worktree of /repo HEAD."""
import json
import os
import subprocess
import sys
import tempfile

HERE = os.path.dirname(os.path.abspath(__file__))
OUT = os.path.join(HERE, "mutants")


def sh(cmd, cwd=None):
    r = subprocess.run(cmd, shell=True, cwd=cwd, capture_output=True)
    return r.returncode, r.stdout, r.stderr


# name -> (file, old, new, checks expected to catch it)
HAND = {
    "drop-ext-vars-from-sig": ("dds/introspect.py", '''        + [
            (HK(f"ext_variable_{local_path}"), sig)
            for (local_path, sig) in ext_vars.items()
        ]
''', '''        + []
''', ["C01"]),
    "float-vars-not-tracked": ("dds/_retrieve_objects.py", "if tpe in (int, float, str, bytes, PurePosixPath, FunctionType, ModuleType):", "if tpe in (int, str, bytes, PurePosixPath, FunctionType, ModuleType):", ["C01"]),
    "commut-hash-ignores-key": ("dds/fun_args.py", '''        b = hashlib.sha256(kv[0].encode("utf-8"))
        b.update(kv[1].encode("utf-8"))''', '''        b = hashlib.sha256(b"")
        b.update(kv[1].encode("utf-8"))''', ["C01", "C13"]),
    "fun-path-in-signature": ("dds/introspect.py", '''        return_sig = _build_return_sig(
            body_sig=body_sig,
            arg_ctx=arg_ctx,
            indirect_deps=indirect_deps_sigs,''', '''        return_sig = _build_return_sig(
            body_sig=dds_hash([body_sig, repr(fun_path)]),
            arg_ctx=arg_ctx,
            indirect_deps=indirect_deps_sigs,''', ["C02", "C03"]),
    "global-interaction-cache-by-name": ("dds/introspect.py", '''        fis_key = (fun_path, arg_ctx_hash)
        fis_ = gctx.cached_fun_interactions.get(fis_key)
        if fis_ is not None:
            return fis_
        src = inspect.getsource(f)
        # _logger.debug(f"Starting _introspect: {f}: src={src}")''', '''        fis_key = (fun_path, arg_ctx_hash)
        fis_ = gctx.cached_fun_interactions.get(fis_key) or _PROCESS_CACHE.get(fis_key)
        if fis_ is not None:
            return fis_
        src = inspect.getsource(f)
        # _logger.debug(f"Starting _introspect: {f}: src={src}")''', ["C01"]),
    "sync-only-root-path": ("dds/_api.py", '''                    [(p, k) for (p, k) in store_paths.items() if _store().has_blob(k)]''', '''                    [
                        (p, k)
                        for (p, k) in store_paths.items()
                        if _store().has_blob(k) and (path is None or k == current_sig)
                    ]''', ["C04"]),
    "commit-unreached-keeps": ("dds/_api.py", '''                    [(p, k) for (p, k) in store_paths.items() if _store().has_blob(k)]''', '''                    [(p, k) for (p, k) in store_paths.items()]''', ["C04"]),
    "store-blob-in-finally": ("dds/_api.py", '''        t = _time()
        res = fun(*args, **kwargs)
        _add_delta(t, ProcessingStage.STORE_COMMIT)
        _logger.info(f"_eval:Evaluating (keep:{path}) fun {fun}: completed")
        if key is not None:
            _logger.info(f"_eval:Storing blob into key {key}")
            t = _time()
            _store().store_blob(key, res, codec=None)
            _add_delta(t, ProcessingStage.STORE_COMMIT)
        return res''', '''        t = _time()
        res = None
        try:
            res = fun(*args, **kwargs)
        finally:
            _add_delta(t, ProcessingStage.STORE_COMMIT)
            _logger.info(f"_eval:Evaluating (keep:{path}) fun {fun}: completed")
            if key is not None:
                _logger.info(f"_eval:Storing blob into key {key}")
                t = _time()
                _store().store_blob(key, res, codec=None)
                _add_delta(t, ProcessingStage.STORE_COMMIT)
        return res''', ["C10"]),
    "exception-wrapped": ("dds/_api.py", '''            res = fun(*args, **kwargs)
            _add_delta(t, ProcessingStage.EVAL)''', '''            try:
                res = fun(*args, **kwargs)
            except Exception as e:
                raise type(e)(*e.args) from e
            _add_delta(t, ProcessingStage.EVAL)''', ["C10"]),
    "eval-ctx-not-reset-on-error": ("dds/_api.py", '''            _logger.info(f"Stage {stage}: {x:.3f} sec {100 * x / s:.2f}%")
        _eval_ctx = None''', '''            _logger.info(f"Stage {stage}: {x:.3f} sec {100 * x / s:.2f}%")
        if sys.exc_info()[0] is None or issubclass(sys.exc_info()[0], Exception):
            _eval_ctx = None''', ["C10"]),
    "cycle-check-direct-only": ("dds/_introspect_indirect.py", '''        if caller_fun_path in call_stack:
            raise DDSException(''', '''        if call_stack and caller_fun_path == call_stack[-1]:
            raise DDSException(''', []),
    "lru-evicts-late": ("dds/_lru_store.py", "        while len(self._cache) > self._capacity:", "        while len(self._cache) > self._capacity + 1:", ["C12"]),
    "lru-has-blob-only-cache-after-store": ("dds/_lru_store.py", '''        _logger.debug(f"store_blob key {key}")
        self._store.store_blob(key, blob, codec)''', '''        _logger.debug(f"store_blob key {key}")
        self._cache.put(key, blob)
        self._store.store_blob(key, blob, codec)''', ["C12"]),
    "kwargs-ignored-in-direct-hash": ("dds/fun_args.py", '''            if n in kwargs:
                # positional argument
                h = dds_hash(kwargs[n])''', '''            if n in kwargs and p.default == Parameter.empty:
                # positional argument
                h = dds_hash(kwargs[n])''', ["C13"]),
    "stages-commit-paths-always": ("dds/_api.py", "        if ProcessingStage.PATH_COMMIT in stages:", "        if ProcessingStage.PATH_COMMIT in stages or ProcessingStage.STORE_COMMIT in stages:", ["C15"]),
    "stages-analysis-runs-when-export": ("dds/_api.py", "        if ProcessingStage.EVAL not in stages:", "        if ProcessingStage.EVAL not in stages and ProcessingStage.STORE_INSPECT not in stages:", ["C15"]),
    "codec-by-type-on-read": ("dds/store.py", '''        codec = codec_registry().get_codec(None, ref)
        if isinstance(codec, CodecProtocol):
            return codec.deserialize_from(GenericLocation(p))''', '''        codec = codec_registry().get_codec(None, ref)
        if str(ref).endswith("pickle"):
            codec = codec_registry().get_codec(STU.from_type(object), None)
        if isinstance(codec, CodecProtocol):
            return codec.deserialize_from(GenericLocation(p))''', ["C17"]),
    "string-codec-text-mode-newlines": ("dds/codecs/builtins.py", '''        with open(str(loc), "wb") as f:
            f.write(blob.encode(encoding="utf-8"))''', '''        with open(str(loc), "w", encoding="utf-8") as f:
            f.write(blob)''', ["C17"]),
    "graph-drops-dashed-edges-for-present-nodes": ("dds/_plotting.py", '''                k = (sig2, res_node.node_hash)
                if k not in deps:''', '''                k = (sig2, res_node.node_hash)
                if k not in deps and sig2 not in node_deps:''', ["C18"]),
    "float-negative-zero-normalised": ("dds/fun_args.py", '''        if isinstance(elt, float):
            return _algo_bytes(struct.pack("!d", elt))''', '''        if isinstance(elt, float):
            return _algo_bytes(struct.pack("!d", elt + 0.0 if elt else 0.0))''', ["C05"]),
    "list-hash-without-separator": ("dds/fun_args.py", '''                "|".join([_dds_hash(y, idx) for (idx, y) in enumerate(elt)])''', '''                "".join(sorted([_dds_hash(y, idx) for (idx, y) in enumerate(elt)]))''', ["C05"]),
    "dbfs-links-only-copies": ("dds/codecs/databricks.py", "                if self._commit_type == CommitType.FULL:", "                if self._commit_type != CommitType.NO_COMMIT:", ["C19"]),
    "accept-prefix-without-dot-boundary": ("dds/_eval_ctx.py", '''            if ".".join(cp._path.parts[:idx]) in self.whitelisted_packages:
                return True''', '''            if ".".join(cp._path.parts[:idx]) in self.whitelisted_packages:
                return True
            if idx == 1 and any(cp._path.parts[0].startswith(w) for w in self.whitelisted_packages if "." not in w and not w.startswith("__") and w != "dds"):
                return True''', ["C14"]),
    "data-dir-not-absolute": ("dds/store.py", "        self._data_root = os.path.abspath(data_dir)", "        self._data_root = data_dir", ["C16"]),
}


def main():
    os.makedirs(OUT, exist_ok=True)
    meta = {}
    wt = tempfile.mkdtemp(prefix="mutwt_")
    os.rmdir(wt)
    rc, o, e = sh("git -C /repo worktree add -q --detach %s HEAD" % wt)
    assert rc == 0, e
    try:
        # (a) reverts of the fix commits
        rc, o, e = sh("git -C /repo log --reverse --format='%h %s' b269767..HEAD")
        kf = json.load(open(os.path.join(os.path.dirname(HERE), "known_findings.json")))
        for line in o.decode().splitlines():
            hh, subj = line.split(" ", 1)
            if not subj.startswith("fix:"):
                continue
            rc, d, e = sh("git -C /repo diff %s %s^ -- dds" % (hh, hh))
            name = "revert-%s" % hh
            p = os.path.join(OUT, name + ".diff")
            open(p, "wb").write(d)
            rc, _, e = sh("git apply --check %s" % p, cwd=wt)
            props = sorted(set(x.split("property=")[1].split()[0] for x in kf["fixed"] if hh in x))
            if rc != 0:
                os.remove(p)
                print("revert of", hh, "does not apply on HEAD (later commit touches the same lines): skipped")
                continue
            if hh == "a7d6303":
                props = ["C02", "C04"]  # since ee5abd1 a dangling link no longer makes later evaluations fail (C01)
            meta[name] = {"kind": "revert", "subject": subj, "expect": props}
        # (b) hand-written
        for name, (f, old, new, expect) in HAND.items():
            path = os.path.join(wt, f)
            b = open(path, "rb").read()
            crlf = b"\r\n" in b
            o_, n_ = old.encode(), new.encode()
            if crlf:
                o_, n_ = o_.replace(b"\n", b"\r\n"), n_.replace(b"\n", b"\r\n")
            if b.count(o_) != 1:
                print("hand mutant", name, ": pattern found", b.count(o_), "times - skipped")
                continue
            nb = b.replace(o_, n_)
            if name == "global-interaction-cache-by-name":
                nb = nb.replace(b"_logger = logging.getLogger(__name__)", b"_logger = logging.getLogger(__name__)\r\n_PROCESS_CACHE: Dict[Any, Any] = {}" if crlf else b"_logger = logging.getLogger(__name__)\n_PROCESS_CACHE: Dict[Any, Any] = {}", 1)
                nb = nb.replace(b"    # Cache the function interactions\r\n    gctx.cached_fun_interactions[fis_key] = fis\r\n    # Register the path", b"    # Cache the function interactions\r\n    gctx.cached_fun_interactions[fis_key] = fis\r\n    _PROCESS_CACHE[fis_key] = fis\r\n    # Register the path", 1)
            open(path, "wb").write(nb)
            rc, d, e = sh("git diff -- dds", cwd=wt)
            open(os.path.join(OUT, name + ".diff"), "wb").write(d)
            sh("git checkout -- dds", cwd=wt)
            meta[name] = {"kind": "hand", "file": f, "expect": expect}
    finally:
        sh("git -C /repo worktree remove --force %s" % wt)
    json.dump(meta, open(os.path.join(OUT, "catalogue.json"), "w"), indent=1, sort_keys=True)
    print(len(meta), "mutants")


if __name__ == "__main__":
    main()
