"""
C08 - stores round-trip blobs and paths; distinct paths never alias or escape.

Monitor: every answer of the Store API (has/fetch/store blob, sync/fetch paths, reopen) on
MemoryStore, LocalFileStore, cache-wrapped and DBFS(fake dbutils), against a dictionary model;
a tree walk (lstat, no link following) of the scratch root for containment.
"""
import itertools
import os

from vp import core
from vp import storemodel as SM


def _mk_path(p):
    from dds.structures_utils import DDSPathUtils
    from dds.structures import DDSException

    try:
        return DDSPathUtils.create(p), None
    except DDSException as e:
        return None, "DDSException"
    except BaseException as e:
        return None, "%s: %s" % (type(e).__name__, str(e)[:100])


def path_features(p, others=()):
    s = SM.segs(p)
    f = {
        "dot": "." in s,
        "dotdot": ".." in s,
        "trailing_sep": p.endswith("/") and len(p) > 1,
        "doubled_sep": "//" in p,
        "nseg": len(s),
        "leading_dot": any(x.startswith(".") and x not in (".", "..") for x in s),
    }
    cat = "".join(s[:-1]) + "/" + s[-1] if s else ""
    f["concat_ambiguous"] = any(
        (SM.segs(o) != s and SM.segs(o) and "".join(SM.segs(o)[:-1]) + "/" + SM.segs(o)[-1] == cat) for o in others
    )
    return f


def mech_of(feat):
    if feat.get("dotdot"):
        return "dotdot-segment"
    if feat.get("dot"):
        return "dot-segment"
    if feat.get("concat_ambiguous"):
        return "segment-concatenation-alias"
    if feat.get("trailing_sep"):
        return "trailing-separator"
    if feat.get("doubled_sep"):
        return "doubled-separator"
    if feat.get("leading_dot"):
        return "leading-dot-segment"
    return None


def bulk_job(arg):
    """One store kind x one path set: commit every path with its own key, then resolve all."""
    kind, set_name, paths, batch = arg
    from dds.structures import DDSException

    rep = core.Report("C08")
    with core.Scratch("vp_c08_") as root:
        st = SM.make_store(kind, root)
        before = SM.walk(root)
        model = {}  # segs -> (path, key)
        attempted = {}  # key -> path, for every path ever handed to sync_paths
        rejected = 0
        todo = []
        for p in paths:
            dp, err = _mk_path(p)
            if dp is None:
                if err == "DDSException":
                    rejected += 1
                    rep.count("paths_rejected_by_create")
                else:
                    rep.violate("DDSPathUtils.create(%r) raised %s" % (p, err), {"kind": kind, "path": p}, mechanism=mech_of(path_features(p)))
                continue
            todo.append((p, dp))
        for i in range(0, len(todo), batch):
            chunk = todo[i : i + batch]
            from collections import OrderedDict

            m = OrderedDict()
            for p, dp in chunk:
                k = SM.key_for((set_name, p))
                st.store_blob(k, "val:" + p, None)
                m[dp] = k
                attempted[k] = p
            pre = SM.walk(root) if kind in ("local", "local_lru", "local_linked") else None
            try:
                st.sync_paths(m)
                for p, dp in chunk:
                    model[SM.segs(p)] = (p, m[dp])
                rep.count("paths_committed", len(chunk))
            except DDSException:
                rep.count("sync_rejected_with_dds_error")
                if pre is not None:
                    post = SM.walk(root)
                    new = [x for x in post if x not in pre and x.startswith("data")]
                    if new:
                        rep.violate("sync_paths raised a DDSException but created %r" % (new[:3],), {"kind": kind, "paths": [p for p, _ in chunk]}, mechanism="rejected-sync-left-entries")
            except BaseException as e:
                feats = [path_features(p, paths) for p, _ in chunk]
                mech = None
                for f in feats:
                    mech = mech or mech_of(f)
                rep.violate(
                    "%s.sync_paths(%r) raised low-level %s: %s" % (kind, [p for p, _ in chunk][:3], type(e).__name__, str(e)[:120]),
                    {"kind": kind, "paths": [p for p, _ in chunk], "set": set_name},
                    mechanism=mech,
                )
        # resolve every committed path
        for sg, (p, k) in model.items():
            dp, _ = _mk_path(p)
            rep.count("path_resolutions")
            try:
                got = st.fetch_paths([dp]).get(dp)
            except BaseException as e:
                got = "%s: %s" % (type(e).__name__, str(e)[:100])
            if got != k:
                # who owns what we got?
                owner = [attempted[got]] if got in attempted else []
                feat = path_features(p, [q for q, _ in model.values()])
                if owner:
                    fo = path_features(owner[0], [p])
                    for kf in ("dot", "dotdot", "concat_ambiguous", "trailing_sep", "doubled_sep"):
                        feat[kf] = feat[kf] or fo[kf]
                rep.violate(
                    "%s: path %r resolves to %s instead of its own key (%s)" % (kind, p, ("the key of %r" % owner[0]) if owner else repr(got)[:80], set_name),
                    {"kind": kind, "path": p, "alias_of": owner[:1], "set": set_name},
                    mechanism=mech_of(feat),
                    features=feat,
                )
            else:
                v = st.fetch_blob(k)
                if v != "val:" + p:
                    rep.violate("%s: blob of %r fetched as %r" % (kind, p, v), {"kind": kind, "path": p}, mechanism="blob-roundtrip")
        # containment
        if kind in ("local", "local_lru", "local_linked"):
            after = SM.walk(root)
            dreal = os.path.realpath(os.path.join(root, "data"))
            ireal = os.path.realpath(os.path.join(root, "internal"))
            for rel in after:
                if rel in before:
                    continue
                rp = os.path.join(os.path.realpath(root), rel)
                par = os.path.realpath(os.path.dirname(rp))
                inside_data = (par + "/").startswith(dreal + "/") or par == dreal
                inside_internal = rel.startswith("internal") or (par + "/").startswith(ireal + "/") or par == ireal
                rep.count("entries_checked_for_containment")
                if not (inside_data or inside_internal):
                    rep.violate("local store created %r outside the data and internal directories" % rel, {"kind": kind, "entry": rel, "set": set_name}, mechanism="dotdot-segment" if True else None, features={"escape": True})
        if kind == "dbfs":
            after = SM.walk(root)
            for rel in after:
                rep.count("entries_checked_for_containment")
                if not (rel == "dbfs" or rel.startswith("dbfs/internal") or rel.startswith("dbfs/data")):
                    rep.violate("dbfs store wrote %r outside its directories" % rel, {"kind": kind, "entry": rel}, mechanism="dotdot-segment")
        rep.evaluations = 1
        if len(model) >= 2:
            rep.nontriv(("bulk", kind, set_name))
        rep.count("bulk_sets")
    return rep


URLISH = ["/r/ready", "/r/ready?", "/r/ready#", "/r/ready;", "/r/ready?x=1", "/r/ready#frag", "/r/a\tb", "/r/ab", "/r/a b", "/r/a%20b", "/r/a+b", "/q/x;y/z", "/q/x/z", "/q/x;y;/z", "/w/a:b", "/w/a", "/w/'q'", "/w/\"q\"", "/w/q",
          "/u/caf\u00e9", "/u/cafe\u0301", "/u/A", "/u/a", "/w/a%3Ab", "/w/a_b", "/w/a%3ab", "/w/run:1", "/w/run_1", "/w/run%3A1", "/w/a%25b", "/w/a%b"]

OPS = ["store", "has", "fetch", "sync", "fetch_paths", "reopen", "has_absent", "fetch_absent", "fetch_paths_absent", "sync_other", "resync", "lose_blob_file"]


def gen_sequence(rng, n, paths, nkeys=14):
    seq = []
    for _ in range(n):
        op = rng.choice(OPS)
        k = rng.randrange(nkeys)
        if op in ("sync", "sync_other"):
            m = rng.sample(range(len(paths)), rng.randrange(1, min(3, len(paths)) + 1))
            seq.append((op, [(i, rng.randrange(nkeys)) for i in m]))
        elif op in ("fetch_paths", "fetch_paths_absent"):
            seq.append((op, rng.randrange(len(paths))))
        else:
            seq.append((op, k))
    return seq


VALUES = ["text-é", "", b"\x00\xffbytes", b"", None, 7, [1, {"a": (2, 3)}], SM.Obj("o"), "crlf\r\nline\rend\n", b"\r\n\r",
          SM.result_value("frame0"), SM.result_value("frame_labels"), SM.result_value("frame_named_index"), SM.result_value("frame_odd_names")]


def _same(a, b):
    return type(a) is type(b) and SM.values_equal(a, b)


def seq_job(arg):
    kind, seqs, paths = arg
    from dds.structures import DDSException
    from collections import OrderedDict

    rep = core.Report("C08")
    for si, seq in enumerate(seqs):
        with core.Scratch("vp_c08s_") as root:
            st = SM.make_store(kind, root)
            blobs = {}
            pmap = {}
            rep.evaluations += 1
            sawp = False
            last_sync = None

            def bad(what, mech=None):
                rep.violate("%s after %r: %s" % (kind, seq[: step + 1], what), {"kind": kind, "seq": seq, "paths": paths, "step": step}, mechanism=mech)

            ok = True
            for step, (op, a) in enumerate(seq):
                rep.count("ops")
                try:
                    if op == "store":
                        key = SM.key_for(a)
                        val = VALUES[a % len(VALUES)]
                        st.store_blob(key, val, None)
                        blobs[key] = val
                    elif op == "lose_blob_file":
                        # the file of a blob disappears while its metadata file stays (large files pruned from the blob
                        # directory, a partial restore): the key is absent until it is stored again
                        key = SM.key_for(a)
                        bf = os.path.join(os.path.realpath(os.path.join(root, "internal", "blobs")), key)
                        if kind in ("local", "local_lru", "local_linked") and key in blobs and key not in pmap.values() and os.path.isfile(bf) and os.path.isfile(bf + ".meta"):
                            os.remove(bf)
                            del blobs[key]
                            if kind == "local_lru":
                                st = SM.make_store(kind, root, reopen=True)  # (a new process: nothing of the lost blob is cached)
                            rep.count("blob_files_lost")
                    elif op in ("has", "has_absent"):
                        key = SM.key_for(a if op == "has" else "absent%d" % a)
                        r = st.has_blob(key)
                        rep.count("answers_checked")
                        if bool(r) != (key in blobs):
                            bad("has_blob(%s..)=%r, model %r" % (key[:6], r, key in blobs), "has-blob-wrong")
                    elif op in ("fetch", "fetch_absent"):
                        key = SM.key_for(a if op == "fetch" else "absent%d" % a)
                        if key in blobs:
                            r = st.fetch_blob(key)
                            rep.count("answers_checked")
                            if not _same(r, blobs[key]):
                                bad("fetch_blob(%s..)=%r, stored %r" % (key[:6], r, blobs[key]), "blob-roundtrip")
                        else:
                            try:
                                r = st.fetch_blob(key)
                                if r is not None:
                                    bad("fetch_blob of a never-stored key returned %r" % (r,), "absent-blob-served")
                            except DDSException:
                                pass
                    elif op == "sync":
                        m = OrderedDict()
                        for (pi, ki) in a:
                            key = SM.key_for(ki)
                            if key not in blobs:
                                st.store_blob(key, VALUES[ki % len(VALUES)], None)
                                blobs[key] = VALUES[ki % len(VALUES)]
                            m[_mk_path(paths[pi])[0]] = key
                        st.sync_paths(m)
                        for p, key in m.items():
                            pmap[p] = key
                        sawp = True
                        last_sync = m
                    elif op == "sync_other":
                        # another writer on the same storage (a second store object on the same directories; for the
                        # in-memory kinds the object under the cache wrapper) commits paths behind this handle's back
                        other = _other_handle(kind, root, st)
                        if other is not None:
                            m = OrderedDict()
                            for (pi, ki) in a:
                                key = SM.key_for(ki)
                                if key not in blobs:
                                    other.store_blob(key, VALUES[ki % len(VALUES)], None)
                                    blobs[key] = VALUES[ki % len(VALUES)]
                                m[_mk_path(paths[pi])[0]] = key
                            other.sync_paths(m)
                            rep.count("commits_by_second_handle")
                            for p, key in m.items():
                                pmap[p] = key
                    elif op == "resync":
                        # the long-lived handle commits again exactly what it committed last
                        if last_sync is not None and all(k_ in blobs for k_ in last_sync.values()):
                            # (only keys that are present are ever committed: that is the caller's side of the contract)
                            st.sync_paths(last_sync)
                            rep.count("recommits_of_last_map")
                            for p, key in last_sync.items():
                                pmap[p] = key
                    elif op in ("fetch_paths", "fetch_paths_absent"):
                        p = _mk_path(paths[a])[0] if op == "fetch_paths" else _mk_path("/never/kept%d" % a)[0]
                        if p in pmap:
                            r = st.fetch_paths([p])
                            rep.count("answers_checked")
                            if r.get(p) != pmap[p]:
                                bad("fetch_paths(%s)=%r, committed %s.." % (p, r.get(p), pmap[p][:6]), "path-resolution-wrong")
                        else:
                            try:
                                r = st.fetch_paths([p])
                                if r.get(p) is not None:
                                    bad("fetch_paths of never-committed %s returned %r" % (p, r.get(p)), _alias_mech(p, r.get(p), pmap) or "absent-path-served")
                            except DDSException:
                                pass
                            except BaseException as e:
                                if kind != "dbfs" or not type(e).__name__.startswith("FakeDbfs"):
                                    raise
                    elif op == "reopen":
                        if kind != "memory":
                            st = SM.make_store(kind, root, reopen=True)
                            last_sync = None
                except BaseException as e:
                    bad("raised %s: %s" % (type(e).__name__, str(e)[:150]), "store-op-raised")
                    ok = False
                    break
            if ok:
                # final sweep: everything ever written is still there, unchanged
                step = len(seq) - 1
                for key, val in blobs.items():
                    rep.count("answers_checked", 2)
                    if not st.has_blob(key):
                        bad("stored key %s.. not present at the end" % key[:6], "has-blob-wrong")
                    try:
                        r = st.fetch_blob(key)
                    except BaseException as e:
                        r = "%s: %s" % (type(e).__name__, str(e)[:80])
                    if not _same(r, val):
                        bad("final fetch_blob(%s..)=%r, stored %r" % (key[:6], r, val), "blob-roundtrip")
                for p, key in pmap.items():
                    rep.count("answers_checked")
                    try:
                        r = st.fetch_paths([p]).get(p)
                    except BaseException as e:
                        r = "%s: %s" % (type(e).__name__, str(e)[:80])
                    if r != key:
                        bad("final fetch_paths(%s)=%r, committed %s.." % (p, r, key[:6]), _alias_mech(p, r, pmap))
            if ok and blobs and kind in ("local", "local_lru", "local_linked"):
                # queries never change the store: a blob file that (still) has no metadata - a writer is between its two
                # renames, or was killed there - is reported absent and left alone, by this handle and by a second one
                bdir = os.path.realpath(os.path.join(root, "internal", "blobs"))
                some = sorted(blobs)[0]
                inflight = SM.key_for("in-flight-%d" % si)
                if os.path.isfile(os.path.join(bdir, some)):
                    import shutil as _sh

                    _sh.copyfile(os.path.join(bdir, some), os.path.join(bdir, inflight))
                    before_q = SM.tree_hash(root)
                    for h in (st, _other_handle(kind, root, st)):
                        rep.count("answers_checked", 2)
                        try:
                            if h.has_blob(inflight):
                                bad("has_blob answered True for a blob file without metadata", "has-blob-wrong")
                            h.has_blob(some)
                            h.fetch_paths(list(pmap)[:1]) if pmap else None
                        except BaseException as e:
                            bad("a query raised %s: %s" % (type(e).__name__, str(e)[:100]), "store-op-raised")
                    if SM.tree_hash(root) != before_q:
                        bad("presence / path queries changed the files of the store (a blob whose metadata had not arrived yet was touched)", "query-modifies-store")
                    rep.count("query_purity_checks")
            if sawp and blobs:
                rep.nontriv(("seq", kind, repr(seq)))
    return rep


def _other_handle(kind, root, st):
    """A second writer on the storage behind `st` (None when the kind has no shareable storage)."""
    if kind in ("memory",):
        return None
    if kind == "memory_lru":
        return st._store  # the wrapped MemoryStore: what another cache wrapper on the same store would write to
    return SM.make_store(kind, root, reopen=True)


def _alias_mech(p, got, pmap):
    """Mechanism of `p` resolving to the key committed for another path."""
    owners = [q for q, k in pmap.items() if k == got and SM.segs(q) != SM.segs(p)]
    for q in owners:
        f = path_features(p, [q])
        m = mech_of(f)
        if m:
            return m
    return "path-resolution-wrong"


def api_job(arg):
    """Paths go through the public API: dds.keep(path, f, tag) on each store kind."""
    kind, paths = arg
    import dds
    from dds.structures import DDSException

    rep = core.Report("C08")
    dds.accept_module("checks")
    with core.Scratch("vp_c08a_") as root:
        if kind == "local":
            dds.set_store("local", internal_dir=os.path.join(root, "internal"), data_dir=os.path.join(root, "data"))
        elif kind == "memory":
            dds.set_store("memory")
        else:
            dds.set_store(SM.make_store(kind, root))
        kept = {}
        for p in paths:
            rep.count("api_keeps")
            try:
                v = dds.keep(p, api_fun, p)
                if v != api_fun(p):
                    rep.violate("keep(%r) returned %r" % (p, v), {"kind": kind, "path": p}, mechanism=mech_of(path_features(p, paths)))
                kept[p] = v
            except DDSException:
                rep.count("api_rejected_with_dds_error")
            except BaseException as e:
                rep.violate("dds.keep(%r, ...) on %s raised low-level %s: %s" % (p, kind, type(e).__name__, str(e)[:120]), {"kind": kind, "path": p, "paths": paths}, mechanism=mech_of(path_features(p, paths)))
        for p, v in kept.items():
            rep.count("api_loads")
            try:
                r = dds.load(p)
            except BaseException as e:
                r = "%s: %s" % (type(e).__name__, str(e)[:100])
            if r != v:
                f = path_features(p, paths)
                for q, vq in kept.items():
                    if vq == r:
                        fq = path_features(q, [p])
                        for kf in ("dot", "dotdot", "concat_ambiguous", "trailing_sep", "doubled_sep"):
                            f[kf] = f[kf] or fq[kf]
                rep.violate("%s: load(%r) = %r, kept %r" % (kind, p, r, v), {"kind": kind, "path": p, "paths": paths}, mechanism=mech_of(f), features=f)
        if kind == "local":
            after = SM.walk(root)
            dreal = os.path.realpath(os.path.join(root, "data"))
            for rel in after:
                rp = os.path.join(os.path.realpath(root), rel)
                par = os.path.realpath(os.path.dirname(rp))
                if not ((par + "/").startswith(dreal + "/") or rel.startswith("internal") or rel in ("data",)):
                    rep.violate("local store created %r outside the data directory" % rel, {"kind": kind, "entry": rel, "paths": paths}, mechanism="dotdot-segment")
        rep.evaluations = 1
        if len(kept) >= 2:
            rep.nontriv(("api", kind, repr(paths)))
    return rep


def pathlib_job(arg):
    """Paths handed over as pathlib.Path objects whose text also names things that exist on the local disk (directories,
    a symbolic link to a directory, a file): a dds path is a name inside the store, so what the local disk holds under
    that name changes nothing - Path(x) and the text x are the same path, paths with different segments stay apart."""
    import pathlib

    kind = arg
    import dds
    from dds.structures import DDSException

    rep = core.Report("C08")
    dds.accept_module("checks")
    with core.Scratch("vp_c08p_") as root:
        store_root = os.path.join(root, "store")
        os.makedirs(store_root)
        if kind == "local":
            dds.set_store("local", internal_dir=os.path.join(store_root, "internal"), data_dir=os.path.join(store_root, "data"))
        else:
            dds.set_store(SM.make_store(kind, store_root))
        fs = os.path.join(os.path.realpath(root), "fsroot")
        os.makedirs(os.path.join(fs, "mnt_disk", "sub"))
        os.makedirs(os.path.join(fs, "real", "dir"))
        os.symlink("mnt_disk", os.path.join(fs, "data"))
        os.symlink(os.path.join(fs, "real"), os.path.join(fs, "abs_link"))
        with open(os.path.join(fs, "real", "dir", "file.txt"), "w") as f:
            f.write("x")
        texts = [fs + "/data/report", fs + "/mnt_disk/report", fs + "/data/sub/r2", fs + "/mnt_disk/sub/r2", fs + "/abs_link/dir/r3", fs + "/real/dir/r3", fs + "/real/dir/file.txt/r4", fs + "/nowhere/r5"]
        given = {}
        for i, t in enumerate(texts):
            # alternate which spelling keeps and which one loads
            given[t] = (pathlib.Path(t), t) if i % 2 == 0 else (t, pathlib.Path(t))
        kept = {}
        for t, (kp, lp) in given.items():
            rep.count("api_keeps")
            try:
                v = dds.keep(kp, api_fun, t)
                kept[t] = v
                if v != api_fun(t):
                    rep.violate("keep(%r) returned %r" % (kp, v), {"kind": kind, "path": t}, mechanism="local-disk-dependent-path")
            except BaseException as e:
                rep.violate("dds.keep(%r, ...) on %s raised %s: %s" % (kp, kind, type(e).__name__, str(e)[:120]), {"kind": kind, "path": t}, mechanism="local-disk-dependent-path")
        for t, v in kept.items():
            for form in given[t]:
                rep.count("api_loads")
                try:
                    r = dds.load(form)
                except BaseException as e:
                    r = "%s: %s" % (type(e).__name__, str(e)[:100])
                if r != v:
                    rep.violate("%s: load(%r) = %r after keep(%r) returned %r (the local disk holds a link / directory under part of that name)" % (kind, form, r, given[t][0], v),
                                {"kind": kind, "path": t}, mechanism="local-disk-dependent-path")
        rep.evaluations = 1
        if len(kept) >= 2:
            rep.nontriv(("pathlib", kind))
    return rep


def api_fun(tag):
    return "api-value:" + tag


def run(tier, seed):
    rep = core.Report("C08")
    rng = core.rng_for(seed, "c08")
    rep.rule = (
        "bulk: per store kind, every path of 1, 2 and 3 segments over the 9-segment alphabet %r (9+81+729=819 paths; same-depth sets so that no path "
        "is a prefix of another), plus prefix-free mixed-depth sets with 4 segments, doubled and trailing separators, each committed with its own key and "
        "resolved back; sequences: enumerated+random op sequences (store/has/fetch/sync/fetch_paths/reopen, commits by a second handle on the same storage, re-commit of the last map; present and absent keys and paths) checked "
        "against a dictionary model after every answer and in a final sweep; api: the same paths through dds.keep/dds.load. "
        "distinct_nontrivial = distinct (store kind, path set) bulk runs with >=2 committed paths + distinct op sequences that committed a path and stored a blob."
        % (SM.SEGMENTS,)
    )
    jobs = []
    p1, p2, p3 = SM.all_paths(1)[:9], [p for p in SM.all_paths(2) if len(SM.segs(p)) == 2], [p for p in SM.all_paths(3) if len(SM.segs(p)) == 3]
    mixed_sets = []
    base = SM.all_paths(3) + ["/" + "/".join(t) for t in itertools.product(["a", "b", "ab"], repeat=4)]
    for i in range(3 if tier == "quick" else 12):
        ps = list(base)
        rng.shuffle(ps)
        ps = SM.prefix_free(ps[:300])
        # decorate some with doubled / trailing separators (same non-empty segments as nothing else in the set)
        deco = []
        for j, p in enumerate(ps):
            if j % 11 == 0:
                deco.append(p.replace("/", "//", 1) if j % 2 else p + "/")
            else:
                deco.append(p)
        mixed_sets.append(deco)
    for kind in SM.STORE_KINDS:
        for name, ps in (("depth1", p1), ("depth2", p2), ("depth3", p3)):
            jobs.append(("bulk", (kind, name, ps, 1 if name != "depth3" else 7)))
        for i, ms in enumerate(mixed_sets):
            jobs.append(("bulk", (kind, "mixed%d" % i, ms, 3)))
        # names that differ only by characters with a meaning in URLs / shells / text protocols
        jobs.append(("bulk", (kind, "url-chars", URLISH, 2)))
    # op sequences
    spaths = ["/a/b/c", "/ab/c", "/a/bc", "/x", "/é/a b", "/a.b/.a"]
    nseq = 400 if tier == "quick" else 4000
    maxlen = 12 if tier == "quick" else 30
    for kind in SM.STORE_KINDS:
        seqs = [gen_sequence(rng, rng.randrange(2, maxlen + 1), spaths) for _ in range(nseq)]
        # enumerated: handle commits, a second handle moves some of those paths, the first handle commits the same map again
        for pi in range(len(spaths)):
            for extra in ([], [((pi + 1) % len(spaths), 3)]):
                for mid in ([], [("fetch_paths", pi)], [("reopen", 0)]):
                    seqs.append([("sync", [(pi, 1)] + extra), ("sync_other", [(pi, 2)])] + mid + [("resync", 0), ("fetch_paths", pi)])
        # a blob file lost while its metadata stays, then the key stored again
        for kk in range(4):
            seqs.append([("store", kk), ("fetch", kk), ("lose_blob_file", kk), ("has", kk), ("store", kk), ("has", kk), ("fetch", kk), ("sync", [(0, kk)]), ("fetch_paths", 0)])
        for i in range(0, len(seqs), 50):
            jobs.append(("seq", (kind, seqs[i : i + 50], spaths)))
    # API level
    api_sets = [["/a/b/c", "/ab/c", "/a/bc", "/abc"], ["/x/../y", "/y", "/x/./z", "/x/z"], ["/t/", "/u//v", "/w"], p2[:40], [p for p in p3 if "." not in SM.segs(p) and ".." not in SM.segs(p)][:60]]
    for kind in SM.STORE_KINDS:
        for ps in api_sets:
            jobs.append(("api", (kind, ps)))

    for kind in SM.STORE_KINDS:
        jobs.append(("pathlib", kind))

    def dispatch(j):
        t, a = j
        return {"bulk": bulk_job, "seq": seq_job, "api": api_job, "pathlib": pathlib_job}[t](a)

    results = core.fork_map(dispatch, jobs, timeout=900)
    for j, r in zip(jobs, results):
        if isinstance(r, core.JobFailed):
            rep.inconclusive.append("job %s %s: %r" % (j[0], j[1] if j[0] == "pathlib" else j[1][0], r))
            continue
        rep.merge(r)
        rep.bump("jobs", j[0] + ":" + (j[1] if j[0] == "pathlib" else j[1][0]))
    rep.sample({"bulk_set_depth3_first": p3[:5], "mixed_example": mixed_sets[0][:6]})
    rep.sample({"op_sequence": gen_sequence(core.rng_for(seed, "sample"), 8, spaths)})
    rep.assumptions = [
        "path sets given to one store are prefix-free (a file-system backed store cannot hold /a and /a/b; within one evaluation that is C11's rejection)",
        "keys are only ever stored with one value (content-addressed discipline)",
        "a path with '.'/'..' segments may be rejected with a DDSException instead of being stored",
    ]
    return rep


def replay(payload):
    rep = core.Report("C08")
    c = payload["case"]
    if "seq" in c:
        seq = [(op, a if not isinstance(a, list) else [tuple(x) for x in a]) for op, a in c["seq"]]
        r = seq_job((c["kind"], [seq], c["paths"]))
    elif "set" in c:
        r = bulk_job((c["kind"], c["set"], c.get("paths") or [c["path"]] + c.get("alias_of", []), 1))
    else:
        r = api_job((c["kind"], c.get("paths") or [c["path"]]))
    rep.merge(r)
    return rep
