"""
C14 - exactly the accepted modules are tracked.

Monitor: the path -> signature map (Store.sync_paths) and returned value before and after an
edit on either side of the accepted boundary; the exception raised for a data function that
lives in a non-accepted module, and the execution log.
Oracle: some signature changes  <=>  the edited module is covered by an accepted name (dotted
prefix); the value follows when it is; the refused data function never runs and the error text
names its module.
"""
import os
import pickle

from vp import core
from vp.worker import run_segment

FORMS = ["from_import", "import_as", "from_pkg_import_mod", "reexport_via_root", "local_import_full", "import_full", "ns_import_full", "ns_from_pkg_import_mod", "ns_from_import"]
EDITS = ["leaf_const", "leaf_var", "na_const", "na_var"]


def files_for(R, depth, form, leaf_const=7, leaf_var=3, na_const=5, na_var=1):
    comps = [R] + ["s%d" % i for i in range(1, depth)] + ["leaf"]
    leafmod = ".".join(comps)
    files = {}
    namespace = form.startswith("ns_")  # PEP 420 namespace packages: directories without __init__.py
    if namespace:
        form = form[3:]
    for i in range(1, len(comps)):
        if not namespace:
            files["/".join(comps[:i]) + "/__init__.py"] = "# pkg\n"
    files["/".join(comps) + ".py"] = (
        "from vp import vlog\n\nLV = %d\n\n\ndef leaf_fn():\n    vlog.hit('leaf_fn')\n    return ('leaf', %d, LV)\n" % (leaf_var, leaf_const)
    )
    local = ""
    if form == "from_import":
        imp, call = "from %s import leaf_fn" % leafmod, "leaf_fn()"
    elif form == "import_as":
        imp, call = "import %s as lm" % leafmod, "lm.leaf_fn()"
    elif form == "reexport_via_root":
        # the root package (accepted or not) re-exports the function; the caller reaches it through the root
        files[R + "/__init__.py"] = "# pkg\nfrom %s import leaf_fn\n" % leafmod
        imp, call = "import %s as rootpkg" % R, "rootpkg.leaf_fn()"
    elif form == "import_full":
        imp, call = "import %s" % leafmod, "%s.leaf_fn()" % leafmod
    elif form == "local_import_full":
        # the module is imported inside the body of the caller and used by its full dotted name (nothing binds the root
        # package at module level)
        imp, call, local = "", "%s.leaf_fn()" % leafmod, "    import %s\n" % leafmod
    else:
        imp, call = "from %s import leaf as lfm" % ".".join(comps[:-1]), "lfm.leaf_fn()"
    files[R + "/top.py"] = (
        "import dds\nfrom vp import vlog\n%s\nimport %s_na\n\n\ndef K():\n%s    vlog.hit('K')\n    return ('K', 1, %s, %s_na.na_fn())\n\n\n"
        "def main():\n    vlog.hit('main')\n    return ('main', dds.keep('/c14/k', K))\n" % (imp, R, local, call, R)
    )
    files[R + "_na/__init__.py"] = "NA_VAR = %d\n\n\ndef na_fn():\n    return ('na', %d, NA_VAR)\n" % (na_var, na_const)
    return files, leafmod


def expected(leaf_const=7, leaf_var=3, na_const=5, na_var=1):
    return ("main", ("K", 1, ("leaf", leaf_const, leaf_var), ("na", na_const, na_var)))


def covered(names, mod):
    return any(mod == n or mod.startswith(n + ".") for n in names)


def case_job(arg):
    idx, depth, accept_main, total, pads_first, form, edit = arg
    rep = core.Report("C14")
    rep.evaluations = 1
    R = "q%d" % idx
    kw0 = dict(leaf_const=7, leaf_var=3, na_const=5, na_var=1)
    kw1 = dict(kw0)
    kw1[{"leaf_const": "leaf_const", "leaf_var": "leaf_var", "na_const": "na_const", "na_var": "na_var"}[edit]] += 10
    f0, leafmod = files_for(R, depth, form, **kw0)
    f1, _ = files_for(R, depth, form, **kw1)
    names = [accept_main] if accept_main else []
    if not covered(names, R + ".top"):
        names.append(R + ".top")
    pads = ["padpkg_%d_%d" % (idx, i) for i in range(max(0, total - len(names)))]
    accept = pads + names if pads_first else names + pads
    edited_mod = leafmod if edit.startswith("leaf") else R + "_na"
    is_acc = covered(names, edited_mod)
    case = {"idx": idx, "depth": depth, "accept": names, "n_accepted": len(accept), "pads_first": pads_first, "form": form, "edit": edit, "leaf_module": leafmod}
    desc = "leaf module %s, accepted %r (+%d unrelated, %s), import form %s, edit %s" % (leafmod, names, len(pads), "before" if pads_first else "after", form, edit)
    with core.Scratch("vp_c14_") as td:
        root = os.path.join(td, "code")
        os.makedirs(root)
        outs = []
        for files in (f0, f1):
            seg = {"mode": "impl", "root": root, "accept": accept, "store": {"kind": "local", "dir": os.path.join(td, "store")},
                   # with the function-local form the sub-module has been imported by someone before the analysis runs (dds
                   # refuses with a DDS error to walk into a sub-module that only the not-yet-executed import statement would load)
                   "steps": [{"write": files, "how": "import", "modules": ([leafmod] if form == "local_import_full" else []) + [R + ".top"], "entry": {"style": "eval", "module": R + ".top", "func": "main", "args_src": "()"}}]}
            o = core.fork_call(run_segment, seg, timeout=300)
            if isinstance(o, core.JobFailed):
                rep.inconclusive.append("worker: %r" % (o,))
                return rep
            outs.append(o["steps"][0])
    for o in outs:
        if "setup_error" in o:
            rep.inconclusive.append(o["setup_error"][-300:])
            return rep
    a, b = outs
    feats = {"depth_of_accepted_name": len(accept_main.split(".")) if accept_main else 0, "n_accepted": len(accept), "edit": edit, "accepted_side": is_acc}
    mech = None
    if accept_main and len(accept_main.split(".")) >= len(accept) + 3:
        mech = "accepted-name-deeper-than-accept-set"
    if a["result"][0] != "ok" or b["result"][0] != "ok":
        bad = a if a["result"][0] != "ok" else b
        rep.violate("%s: evaluation raised %s(%s)" % (desc, bad["result"][1], bad["result"][2][:200]), case, mechanism=mech, features=feats)
        return rep
    if pickle.loads(a["result"][1]) != expected(**kw0):
        rep.violate("%s: first evaluation returned %s" % (desc, a["result"][2][:120]), case, mechanism=mech, features=feats)
        return rep
    sa, sb = dict(a["syncs"][-1]) if a["syncs"] else {}, dict(b["syncs"][-1]) if b["syncs"] else {}
    if not sa or not sb:
        rep.inconclusive.append("no sync_paths observed")
        return rep
    changed = sa != sb
    rep.count("edits_on_accepted_side" if is_acc else "edits_on_non_accepted_side")
    if changed != is_acc:
        rep.violate("%s: signatures %s although the edited module %s is %saccepted" % (desc, "changed" if changed else "did not change", edited_mod, "" if is_acc else "not "), case, mechanism=mech, features=feats)
    elif is_acc and pickle.loads(b["result"][1]) != expected(**kw1):
        rep.violate("%s: value after the edit is %s" % (desc, b["result"][2][:120]), case, mechanism=mech, features=feats)
    else:
        rep.nontriv(("c14", depth, accept_main and len(accept_main.split(".")), len(accept), pads_first, form, edit))
    return rep


def late_accept_job(arg):
    """One process: evaluate while the leaf is NOT accepted, then accept it, evaluate, edit the leaf, evaluate."""
    idx, depth, form, edit = arg
    rep = core.Report("C14")
    rep.evaluations = 1
    R = "la%d" % idx
    kw0 = dict(leaf_const=7, leaf_var=3, na_const=5, na_var=1)
    kw1 = dict(kw0)
    kw1[edit] += 10
    f0, leafmod = files_for(R, depth, form, **kw0)
    f1, _ = files_for(R, depth, form, **kw1)
    comps = leafmod.split(".")
    late = ".".join(comps[: max(2, len(comps) - 1)]) if len(comps) > 2 else leafmod
    ent = {"style": "eval", "module": R + ".top", "func": "main", "args_src": "()"}
    mods = [leafmod, R + "_na"] + ([R] if form == "reexport_via_root" else []) + [R + ".top"]
    case = {"late_accept": True, "idx": idx, "depth": depth, "form": form, "edit": edit, "late_name": late}
    with core.Scratch("vp_c14l_") as td:
        root = os.path.join(td, "code")
        os.makedirs(root)
        seg = {"mode": "impl", "root": root, "accept": [R + ".top"], "store": {"kind": "local", "dir": os.path.join(td, "store")},
               "steps": [{"write": f0, "how": "import", "modules": mods, "entry": ent},
                         {"how": "none", "accept_after": [late], "entry": ent},
                         {"write": f1, "how": "reload", "modules": mods, "entry": ent}]}
        o = core.fork_call(run_segment, seg, timeout=300)
    if isinstance(o, core.JobFailed):
        rep.inconclusive.append("worker: %r" % (o,))
        return rep
    st = o["steps"]
    for x in st:
        if "setup_error" in x:
            rep.inconclusive.append(x["setup_error"][-300:])
            return rep
        if x["result"][0] != "ok":
            rep.violate("late accept of %s: evaluation raised %s(%s)" % (late, x["result"][1], x["result"][2][:200]), case, mechanism="late-accept-evaluation-raised")
            return rep
    sa, sb = dict(st[1]["syncs"][-1]), dict(st[2]["syncs"][-1])
    rep.count("late_accept_cases")
    if sa == sb:
        rep.violate("leaf module %s accepted (as %s) after a first evaluation in the same process: editing %s did not change any signature" % (leafmod, late, edit), case, mechanism="late-accept-not-effective")
    elif pickle.loads(st[2]["result"][1]) != expected(**kw1):
        rep.violate("late accept of %s: value after the edit is %s" % (late, st[2]["result"][2][:120]), case, mechanism="late-accept-not-effective")
    else:
        rep.nontriv(("c14late", depth, form, edit))
    return rep


def accept_order_job(arg):
    """The leaf's sub-package is accepted first and an ancestor afterwards (or the reverse): the ancestor must count."""
    idx, depth, order, edit = arg
    rep = core.Report("C14")
    rep.evaluations = 1
    R = "ao%d" % idx
    kw0 = dict(leaf_const=7, leaf_var=3, na_const=5, na_var=1)
    kw1 = dict(kw0)
    kw1[edit] += 10
    # the edited module is a *sibling* module that only the ancestor covers
    f0, leafmod = files_for(R, depth, "from_import", **kw0)
    f1, _ = files_for(R, depth, "from_import", **kw1)
    comps = leafmod.split(".")
    child = ".".join(comps[:-1]) + ".other_sub" if len(comps) > 2 else R + ".other_sub"
    names = [child, R] if order == "child-first" else [R, child]
    case = {"accept_order": True, "idx": idx, "depth": depth, "order": order, "edit": edit}
    with core.Scratch("vp_c14o_") as td:
        root = os.path.join(td, "code")
        os.makedirs(root)
        outs = []
        for files in (f0, f1):
            seg = {"mode": "impl", "root": root, "accept": names, "store": {"kind": "local", "dir": os.path.join(td, "store")},
                   "steps": [{"write": files, "how": "import", "modules": [R + ".top"], "entry": {"style": "eval", "module": R + ".top", "func": "main", "args_src": "()"}}]}
            o = core.fork_call(run_segment, seg, timeout=300)
            if isinstance(o, core.JobFailed):
                rep.inconclusive.append("worker: %r" % (o,))
                return rep
            outs.append(o["steps"][0])
    a, b = outs
    for x in (a, b):
        if "setup_error" in x:
            rep.inconclusive.append(x["setup_error"][-300:])
            return rep
        if x["result"][0] != "ok":
            rep.violate("accepted %r in this order: evaluation raised %s(%s)" % (names, x["result"][1], x["result"][2][:200]), case, mechanism="accept-order")
            return rep
    rep.count("accept_order_cases")
    if dict(a["syncs"][-1]) == dict(b["syncs"][-1]):
        rep.violate("modules accepted in the order %r: editing %s of the leaf module %s (covered by %r) did not change any signature" % (names, edit, leafmod, R), case, mechanism="accept-order")
    elif pickle.loads(b["result"][1]) != expected(**kw1):
        rep.violate("modules accepted in the order %r: value after the edit is %s" % (names, b["result"][2][:120]), case, mechanism="accept-order")
    else:
        rep.nontriv(("c14order", depth, order, edit))
    return rep


def lookalike_job(arg):
    """Two unrelated accepted packages whose names look alike once a dot is read as "any character" (acme.etl, a module
    of package acme, and the top-level package acme_etl / acmeXetl): both are tracked, in either order of acceptance."""
    idx, sep, order, edit_side = arg
    rep = core.Report("C14")
    rep.evaluations = 1
    A, B = "la%d" % idx, "la%d%setl" % (idx, sep)
    dotted = A + ".etl"

    def files(ca, cb):
        return {
            A + "/__init__.py": "# pkg\n",
            A + "/etl.py": "from vp import vlog\nRATE_A = %d\n\n\ndef fa():\n    vlog.hit('fa')\n    return ('fa', RATE_A)\n" % ca,
            B + "/__init__.py": "# pkg\n",
            B + "/jobs.py": "from vp import vlog\nRATE_B = %d\n\n\ndef fb():\n    vlog.hit('fb')\n    return ('fb', RATE_B)\n" % cb,
            B + "/top.py": "import dds\nfrom vp import vlog\nfrom %s import fa\nfrom %s.jobs import fb\n\n\ndef K():\n    vlog.hit('K')\n    return ('K', fa(), fb())\n\n\ndef main():\n    return ('main', dds.keep('/c14/look', K))\n" % (dotted, B),
        }

    names = [dotted, B] if order == "dotted-first" else [B, dotted]
    c1 = (3, 5)
    c2 = (13, 5) if edit_side == "dotted" else (3, 15)
    case = {"lookalike": True, "idx": idx, "sep": sep, "order": order, "edit": edit_side}
    with core.Scratch("vp_c14l_") as td:
        root = os.path.join(td, "code")
        os.makedirs(root)
        outs = []
        for cs in (c1, c2):
            seg = {"mode": "impl", "root": root, "accept": names, "store": {"kind": "local", "dir": os.path.join(td, "store")},
                   "steps": [{"write": files(*cs), "how": "import", "modules": [B + ".top"], "entry": {"style": "eval", "module": B + ".top", "func": "main", "args_src": "()"}}]}
            o = core.fork_call(run_segment, seg, timeout=300)
            if isinstance(o, core.JobFailed):
                rep.inconclusive.append("worker: %r" % (o,))
                return rep
            outs.append(o["steps"][0])
    for x, cs in zip(outs, (c1, c2)):
        if "setup_error" in x:
            rep.inconclusive.append(x["setup_error"][-300:])
            return rep
        rep.count("lookalike_evaluations")
        want = ("main", ("K", ("fa", cs[0]), ("fb", cs[1])))
        if x["result"][0] != "ok":
            rep.violate("accepted %r: evaluation raised %s(%s)" % (names, x["result"][1], x["result"][2][:200]), case, mechanism="accept-lookalike-names")
            return rep
        if pickle.loads(x["result"][1]) != want:
            rep.violate("accepted %r (in this order): after an edit in %s the evaluation returned %s, plain execution gives %r" % (names, dotted if edit_side == "dotted" else B + ".jobs", x["result"][2][:120], want), case,
                        mechanism="accept-lookalike-names")
            return rep
    rep.nontriv(("c14look", sep, order, edit_side))
    return rep


def dash_m_job(arg):
    """The pipeline lives in the program module itself, started as a script and with `python -m package.module` (the package
    is not accepted; `__main__` always is): keep, edit of a helper, revert - the printed results are those of plain execution."""
    import json
    import subprocess
    import sys

    idx = arg
    rep = core.Report("C14")
    rep.evaluations = 1
    pkg = "appm%d" % idx
    case = {"dash_m": True, "idx": idx}

    def src(c, store):
        return ("import json\nimport dds\n\n\ndef helper():\n    return %d\n\n\ndef compute():\n    return ('compute', helper() + 1)\n\n\nif __name__ == '__main__':\n"
                "    dds.set_store('local', internal_dir=%r, data_dir=%r)\n    print('RESULT ' + json.dumps(dds.keep('/c14/m', compute)))\n" % (c, os.path.join(store, "i"), os.path.join(store, "d")))

    with core.Scratch("vp_c14m_") as td:
        root = os.path.join(td, "code")
        os.makedirs(os.path.join(root, pkg))
        open(os.path.join(root, pkg, "__init__.py"), "w").write("# pkg\n")
        env = dict(os.environ, PYTHONPATH=os.pathsep.join([core.repo_dir(), root]), PYTHONDONTWRITEBYTECODE="1")
        for how in ("script", "-m"):
            store = os.path.join(td, "store_" + how.strip("-"))
            for c in (1, 10, 1):
                with open(os.path.join(root, pkg, "run.py"), "w") as f:
                    f.write(src(c, store))
                cmd = [sys.executable, os.path.join(root, pkg, "run.py")] if how == "script" else [sys.executable, "-m", pkg + ".run"]
                try:
                    r = subprocess.run(cmd, env=env, cwd=root, capture_output=True, text=True, timeout=300)
                except subprocess.TimeoutExpired:
                    rep.inconclusive.append("program started with %s timed out" % how)
                    return rep
                rep.count("program_module_runs")
                lines = [l for l in r.stdout.splitlines() if l.startswith("RESULT ")]
                got = json.loads(lines[-1][7:]) if lines else None
                if got != ["compute", c + 1]:
                    rep.violate("pipeline in the program module started with %s (helper constant %d): got %r (exit %d, %s), plain execution gives %r" % (how, c, got, r.returncode, r.stderr.strip().splitlines()[-1][:160] if r.stderr.strip() else "", ["compute", c + 1]),
                                case, mechanism="program-module-started-with-dash-m")
                    return rep
    rep.nontriv(("c14dashm", idx))
    return rep


def shadow_local_job(arg):
    """A variable of an accepted nested module read through its module (settings.LIMIT, pkg.conf.settings.LIMIT) by a
    function that also has a local variable spelled like the last or an inner name of that chain (LIMIT = settings.LIMIT;
    conf = ...): an edit of the variable changes the value the evaluation returns."""
    idx, which = arg
    rep = core.Report("C14")
    rep.evaluations = 1
    R = "shl%d" % idx

    def files(limit):
        body = {"same-name-as-variable": "    LIMIT = settings.LIMIT\n    return ('K', LIMIT * 2)",
                "same-name-as-inner-package": "    conf = 5\n    return ('K', %s.conf.settings.LIMIT * 2, conf)" % R,
                "parameter-default-same-name": "    return ('K', inner())"}[which]
        extra = "\n\ndef inner(LIMIT=None):\n    LIMIT = settings.LIMIT if LIMIT is None else LIMIT\n    return ('inner', LIMIT)\n" if which == "parameter-default-same-name" else ""
        return {
            R + "/__init__.py": "# pkg\n", R + "/conf/__init__.py": "# pkg\n",
            R + "/conf/settings.py": "LIMIT = %d\n" % limit,
            R + "/top.py": "import dds\nimport %s.conf.settings\nfrom %s.conf import settings\nfrom vp import vlog\n%s\n\ndef K():\n    vlog.hit('K')\n%s\n\n\ndef main():\n    return ('main', dds.keep('/c14/shadow', K))\n" % (R, R, extra, body),
        }

    def want(limit):
        return ("main", {"same-name-as-variable": ("K", limit * 2), "same-name-as-inner-package": ("K", limit * 2, 5), "parameter-default-same-name": ("K", ("inner", limit))}[which])

    case = {"shadow_local": True, "idx": idx, "which": which}
    with core.Scratch("vp_c14h_") as td:
        root = os.path.join(td, "code")
        os.makedirs(root)
        outs = []
        for limit in (3, 5, 3):
            seg = {"mode": "impl", "root": root, "accept": [R], "store": {"kind": "local", "dir": os.path.join(td, "store")},
                   "steps": [{"write": files(limit), "how": "import", "modules": [R + ".top"], "entry": {"style": "eval", "module": R + ".top", "func": "main", "args_src": "()"}}]}
            o = core.fork_call(run_segment, seg, timeout=300)
            if isinstance(o, core.JobFailed):
                rep.inconclusive.append("worker: %r" % (o,))
                return rep
            outs.append((limit, o["steps"][0]))
    for limit, x in outs:
        if "setup_error" in x:
            rep.inconclusive.append(x["setup_error"][-300:])
            return rep
        rep.count("shadowing_local_evaluations")
        if x["result"][0] != "ok" or pickle.loads(x["result"][1]) != want(limit):
            rep.violate("module variable read through its module next to a local variable (%s): with LIMIT = %d the evaluation gives %s, plain execution %r" % (which, limit, x["result"][2][:120] if x["result"][0] == "ok" else x["result"][1:3], want(limit)),
                        case, mechanism="module-attribute-read-next-to-same-named-local")
            return rep
    rep.nontriv(("c14shadow", which))
    return rep


def self_accept_job(arg):
    """A library package that accepts itself when it is imported (dds.accept_module in its __init__), first imported in
    the process by a function-local import of the pipeline: its functions and variables are tracked from the first
    evaluation on, in every fresh process."""
    idx, edit = arg
    rep = core.Report("C14")
    rep.evaluations = 1
    L, P = "selflib%d" % idx, "selfpipe%d" % idx

    def files(const, var):
        return {
            L + "/__init__.py": "import dds\n\ndds.accept_module(%r)\nfrom . import feat\n" % L,
            L + "/feat.py": "from vp import vlog\nLIMIT = %d\n\n\ndef scale(x):\n    vlog.hit('scale')\n    return ('scale', x, %d, LIMIT)\n" % (var, const),
            P + "/__init__.py": "# pkg\n",
            P + "/top.py": "import dds\nfrom vp import vlog\n\n\ndef K():\n    vlog.hit('K')\n    import %s\n    return ('K', %s.feat.scale(3))\n\n\ndef main():\n    return ('main', dds.keep('/c14/self', K))\n" % (L, L),
        }

    states = [(7, 3), (17, 3) if edit == "const" else (7, 13), (7, 3)]
    case = {"self_accept": True, "idx": idx, "edit": edit}
    with core.Scratch("vp_c14a_") as td:
        root = os.path.join(td, "code")
        os.makedirs(root)
        outs = []
        for st in states:
            seg = {"mode": "impl", "root": root, "accept": [P], "store": {"kind": "local", "dir": os.path.join(td, "store")},
                   "steps": [{"write": files(*st), "how": "import", "modules": [P + ".top"], "entry": {"style": "eval", "module": P + ".top", "func": "main", "args_src": "()"}}]}
            o = core.fork_call(run_segment, seg, timeout=300)
            if isinstance(o, core.JobFailed):
                rep.inconclusive.append("worker: %r" % (o,))
                return rep
            outs.append(o["steps"][0])
    for x, st in zip(outs, states):
        if "setup_error" in x:
            rep.inconclusive.append(x["setup_error"][-300:])
            return rep
        rep.count("self_accepting_package_evaluations")
        want = ("main", ("K", ("scale", 3, st[0], st[1])))
        if x["result"][0] != "ok":
            rep.violate("package that accepts itself on import: evaluation raised %s(%s)" % (x["result"][1], x["result"][2][:200]), case, mechanism="self-accepting-package")
            return rep
        if pickle.loads(x["result"][1]) != want:
            rep.violate("a package that accepts itself on import and is first imported inside the pipeline: after an edit of its %s the evaluation returned %s, plain execution gives %r" % (edit, x["result"][2][:120], want), case,
                        mechanism="self-accepting-package")
            return rep
    rep.nontriv(("c14self", edit))
    return rep


def spellings_job(arg):
    """One variable of an accepted nested module read through several import spellings in one function body: an edit of
    the variable changes the signature (and the value) whatever the number of spellings."""
    idx, depth, nspell = arg
    rep = core.Report("C14")
    rep.evaluations = 1
    R = "sp%d" % idx
    comps = [R] + ["s%d" % i for i in range(1, depth)] + ["settings"]
    smod = ".".join(comps)
    parent = ".".join(comps[:-1])

    def files(limit):
        fs = {}
        for i in range(1, len(comps)):
            fs["/".join(comps[:i]) + "/__init__.py"] = "# pkg\n"
        fs["/".join(comps) + ".py"] = "LIMIT = %d\n" % limit
        imports = ["import %s" % smod, "from %s import settings" % parent, "import %s as st_alias" % smod, "from %s import LIMIT" % smod][:nspell]
        reads = ["%s.LIMIT" % smod, "settings.LIMIT", "st_alias.LIMIT", "LIMIT"][:nspell]
        fs[R + "/top.py" if depth > 1 else R + "/top.py"] = (
            "import dds\nfrom vp import vlog\n%s\n\n\ndef K():\n    vlog.hit('K')\n    return ('K', %s)\n\n\ndef main():\n    return ('main', dds.keep('/c14/spell', K))\n" % ("\n".join(imports), ", ".join(reads))
        )
        return fs

    case = {"spellings": True, "idx": idx, "depth": depth, "nspell": nspell}
    with core.Scratch("vp_c14s_") as td:
        root = os.path.join(td, "code")
        os.makedirs(root)
        outs = []
        for limit in (3, 13):
            seg = {"mode": "impl", "root": root, "accept": [R], "store": {"kind": "local", "dir": os.path.join(td, "store")},
                   "steps": [{"write": files(limit), "how": "import", "modules": [smod, R + ".top"], "entry": {"style": "eval", "module": R + ".top", "func": "main", "args_src": "()"}}]}
            o = core.fork_call(run_segment, seg, timeout=300)
            if isinstance(o, core.JobFailed):
                rep.inconclusive.append("worker: %r" % (o,))
                return rep
            outs.append((limit, o["steps"][0]))
    for limit, o in outs:
        if "setup_error" in o or o["result"][0] != "ok":
            rep.inconclusive.append("spellings job: %s" % (o.get("setup_error") or o["result"],)[0][-300:] if "setup_error" in o else "spellings job raised %r" % (o["result"][1:3],))
            return rep
        want = ("main", ("K",) + (limit,) * nspell)
        rep.count("edits_on_accepted_side")
        if pickle.loads(o["result"][1]) != want:
            rep.violate("variable %s.LIMIT read through %d import spellings in one function: after the edit to %d the evaluation returned %s" % (smod, nspell, limit, o["result"][2][:100]), case, mechanism="variable-spellings-cancel")
            return rep
    if dict(outs[0][1]["syncs"][-1]) == dict(outs[1][1]["syncs"][-1]):
        rep.violate("variable %s.LIMIT read through %d import spellings in one function: its edit did not change any signature" % (smod, nspell), case, mechanism="variable-spellings-cancel")
    else:
        rep.nontriv(("c14spell", depth, nspell))
    return rep


def refused_job(arg):
    idx, depth, n_other = arg
    rep = core.Report("C14")
    rep.evaluations = 1
    R = "n%d" % idx
    comps = [R] + ["t%d" % i for i in range(1, depth)] + ["nd"]
    mod = ".".join(comps)
    files = {}
    for i in range(1, len(comps)):
        files["/".join(comps[:i]) + "/__init__.py"] = "# pkg\n"
    files["/".join(comps) + ".py"] = "import dds\nfrom vp import vlog\n\n\n@dds.data_function('/c14/refused')\ndef nd():\n    vlog.hit('nd')\n    return 1\n"
    # an accepted module whose function reaches the non-accepted data function at run time
    files["acc_%d/__init__.py" % idx] = "# accepted\n"
    files["acc_%d/caller.py" % idx] = "import dds\nfrom vp import vlog\nimport %s as nmod\n\n\ndef helper():\n    vlog.hit('helper')\n    return nmod.nd()\n\n\ndef kept_caller():\n    vlog.hit('kept_caller')\n    return ('kept_caller', helper())\n\n\ndef caller():\n    vlog.hit('caller')\n    return ('caller', dds.keep('/c14/caller_inner', kept_caller))\n" % mod
    accept = ["other_%d_%d" % (idx, i) for i in range(n_other)] + ["acc_%d" % idx]
    case = {"refused": True, "idx": idx, "depth": depth, "n_other": n_other, "module": mod}
    with core.Scratch("vp_c14r_") as td:
        root = os.path.join(td, "code")
        os.makedirs(root)
        outs = []
        for style in ("call", "eval", "reached from accepted code"):
            ent = {"style": style, "module": mod, "func": "nd", "args_src": "()"} if style != "reached from accepted code" else {"style": "eval", "module": "acc_%d.caller" % idx, "func": "caller", "args_src": "()"}
            seg = {"mode": "impl", "root": root, "accept": accept, "store": {"kind": "local", "dir": os.path.join(td, "store")},
                   "steps": [{"write": files, "how": "import", "modules": [mod, "acc_%d.caller" % idx], "entry": ent, "post_loads": ["/c14/refused"]}]}
            o = core.fork_call(run_segment, seg, timeout=300)
            if isinstance(o, core.JobFailed):
                rep.inconclusive.append("worker: %r" % (o,))
                return rep
            outs.append((style, o["steps"][0]))
    for style, o in outs:
        r = o.get("result")
        rep.count("refusals_checked")
        if r is None:
            rep.inconclusive.append(o.get("setup_error", "?")[-200:])
            continue
        if r[0] == "ok":
            rep.violate("data function in non-accepted module %s was evaluated (%s) instead of refused" % (mod, style), case, mechanism="non-accepted-data-function-evaluated")
        elif not r[4]:
            rep.violate("data function in non-accepted module %s (%s): raised %s(%s) instead of a DDS error" % (mod, style, r[1], r[2][:150]), case, mechanism="non-accepted-data-function-lowlevel-error")
        elif R not in r[2]:
            rep.violate("data function in non-accepted module %s (%s): error does not name the module: %s" % (mod, style, r[2][:200]), case, mechanism="refusal-does-not-name-module")
        if "nd" in o["log"]:
            rep.violate("data function in non-accepted module %s ran (%s)" % (mod, style), case, mechanism="non-accepted-data-function-evaluated")
        if o["stored"] or o["sync_begun"]:
            rep.violate("refused data function in %s wrote to the store" % mod, case, mechanism="non-accepted-data-function-evaluated")
    # the error tells the user to accept the module: doing so in the same process must make the call work
    with core.Scratch("vp_c14r2_") as td:
        root = os.path.join(td, "code")
        os.makedirs(root)
        ent = {"style": "call", "module": mod, "func": "nd", "args_src": "()"}
        seg = {"mode": "impl", "root": root, "accept": accept, "store": {"kind": "local", "dir": os.path.join(td, "store")},
               "steps": [{"write": files, "how": "import", "modules": [mod], "entry": ent}, {"how": "none", "accept_after": [R], "entry": ent}]}
        o = core.fork_call(run_segment, seg, timeout=300)
    if isinstance(o, core.JobFailed):
        rep.inconclusive.append("worker: %r" % (o,))
    else:
        r2 = o["steps"][1].get("result")
        rep.count("refused_then_accepted")
        if not r2 or r2[0] != "ok" or pickle.loads(r2[1]) != 1:
            rep.violate("data function of %s is still refused / wrong after dds.accept_module(%r) in the same process: %r" % (mod, R, r2 and r2[1:3]), case, mechanism="late-accept-not-effective")
    rep.nontriv(("c14r", depth, n_other))
    return rep


def run(tier, seed):
    rep = core.Report("C14")
    rng = core.rng_for(seed, "c14")
    rep.rule = (
        "leaf module at depth 1-6 below a unique root package; accepted name = every dotted prefix of the leaf module (and the full module name), or nothing but the caller module (control); total number of accepted "
        "names in {1,2,3,5,10,40} padded with unrelated names registered before or after; 3 import forms from the caller; edits: leaf function body, leaf variable, function and variable of a non-accepted sibling package. "
        "Two fresh processes per case (before / after the edit); plus late acceptance: one process evaluates while the leaf is not accepted, then calls accept_module and must see the leaf tracked from then on. Data functions in non-accepted modules at depth 1-4 with 0/3/40 other accepted names, called directly and through eval. "
        "distinct_nontrivial = distinct (depth, accepted prefix length, accept-set size, padding order, import form, edit) cases decided."
    )
    jobs = []
    idx = 0
    for depth in range(1, 7):
        ncomp = depth + 1
        accepts = list(range(1, ncomp + 1)) + [0]  # prefix lengths; 0 = leaf not accepted (control)
        for j in accepts:
            for total in (1, 2, 3, 5, 10, 40):
                for pads_first in (True, False):
                    for form in FORMS:
                        for edit in EDITS:
                            idx += 1
                            if tier == "quick":
                                key = (depth * 7 + j * 5 + total * 3 + (1 if pads_first else 0) + FORMS.index(form) + EDITS.index(edit) * 11 + seed) % 9
                                must = (j == ncomp or j == max(1, ncomp - 1)) and total in (1, 2) and edit == "leaf_const" and form == "from_import"
                                if key != 0 and not must:
                                    continue
                            R = "q%d" % idx
                            comps = [R] + ["s%d" % i for i in range(1, depth)] + ["leaf"]
                            jobs.append(("case", (idx, depth, ".".join(comps[:j]) if j else None, total, pads_first, form, edit)))
    for depth in (1, 2, 3, 4):
        for n_other in (0, 3, 40):
            idx += 1
            jobs.append(("refused", (idx, depth, n_other)))

    for depth in (1, 2, 3, 4, 5):
        for form in FORMS:
            for edit in ("leaf_const", "leaf_var"):
                idx += 1
                jobs.append(("late", (idx, depth, form, edit)))

    for depth in (1, 2, 3, 4):
        for order in ("child-first", "ancestor-first"):
            for edit in ("leaf_const", "leaf_var"):
                idx += 1
                jobs.append(("order", (idx, depth, order, edit)))

    for depth in (1, 2, 3, 4):
        for nspell in (1, 2, 3, 4):
            idx += 1
            jobs.append(("spell", (idx, depth, nspell)))

    for sep in ("_", "x", "0"):
        for order in ("dotted-first", "dotted-last"):
            for side in ("dotted", "lookalike"):
                idx += 1
                jobs.append(("look", (idx, sep, order, side)))

    for edit in ("const", "var"):
        idx += 1
        jobs.append(("self", (idx, edit)))
    for which in ("same-name-as-variable", "same-name-as-inner-package", "parameter-default-same-name"):
        idx += 1
        jobs.append(("shadow", (idx, which)))
    idx += 1
    jobs.append(("dashm", idx))

    def dispatch(j):
        return {"case": case_job, "refused": refused_job, "late": late_accept_job, "order": accept_order_job, "spell": spellings_job, "look": lookalike_job, "self": self_accept_job, "shadow": shadow_local_job, "dashm": dash_m_job}[j[0]](j[1])

    results = core.fork_map(dispatch, jobs, timeout=900)
    for j, r in zip(jobs, results):
        if isinstance(r, core.JobFailed):
            rep.inconclusive.append("case: %r" % (r,))
            continue
        rep.merge(r)
        if j[0] == "case":
            rep.bump("leaf_depth", j[1][1])
            rep.bump("n_accepted", j[1][3])
    rep.sample({"case": jobs[0][1][1:]})
    rep.sample({"case": jobs[len(jobs) // 2][1][1:]})
    if not rep.counters.get("edits_on_accepted_side") or not rep.counters.get("edits_on_non_accepted_side"):
        rep.inconclusive.append("one side of the boundary was never observed")
    return rep


def replay(payload):
    rep = core.Report("C14")
    c = payload["case"]
    if c.get("dash_m"):
        rep.merge(dash_m_job(c["idx"]))
    elif c.get("shadow_local"):
        rep.merge(shadow_local_job((c["idx"], c["which"])))
    elif c.get("self_accept"):
        rep.merge(self_accept_job((c["idx"], c["edit"])))
    elif c.get("lookalike"):
        rep.merge(lookalike_job((c["idx"], c["sep"], c["order"], c["edit"])))
    elif c.get("spellings"):
        rep.merge(spellings_job((c["idx"], c["depth"], c["nspell"])))
    elif c.get("accept_order"):
        rep.merge(accept_order_job((c["idx"], c["depth"], c["order"], c["edit"])))
    elif c.get("late_accept"):
        rep.merge(late_accept_job((c["idx"], c["depth"], c["form"], c["edit"])))
    elif c.get("refused"):
        rep.merge(refused_job((c["idx"], c["depth"], c["n_other"])))
    else:
        am = [n for n in c["accept"] if not n.endswith(".top")]
        rep.merge(case_job((c["idx"], c["depth"], am[0] if am else None, c["n_accepted"], c["pads_first"], c["form"], c["edit"])))
    return rep
