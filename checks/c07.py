"""
C07 - processes sharing a local store never observe partial or foreign results.

Mechanism (engine E3, scheduler mode, vp/sched.py): 2-3 real processes run dds actions on one
store directory; at every file-system operation boundary (incl. each half of each write) a process
announces the operation and blocks until the controller lets it go, so interleavings are chosen,
not sampled: all schedules with at most k preemptions are executed (k by tier).  Oracle: every
keep / load that returns, returns the complete correct value (a reader: the old or the new one);
no process raises; afterwards a fresh process keeps and loads every path correctly.
"""
import os
import shutil

from vp import core, sched
from checks import scen
from checks.c06 import _child, _copy_store, _eq, _short, file_class

E = scen.EXPECTED


def SC(name, setup, actions, expected, final, verify, order_rule=None, may_fail=()):
    """expected[i] = list of allowed values for participant i; final = {(path, view): [allowed values]};
    verify = [(action, [allowed values])] run afterwards in fresh processes;
    order_rule(ops, results) -> (final overrides, [(participant, allowed values)]) decided from the executed operation order."""
    return {"name": name, "setup": setup, "actions": actions, "expected": expected, "final": final, "verify": verify, "order_rule": order_rule, "may_fail": tuple(may_fail)}


def _marker_index(ops, who, marker):
    for i, (c, k, p) in enumerate(ops):
        if c == who and p.endswith(marker):
            return i
    return None


def _last_index(ops, who):
    idx = [i for i, (c, k, p) in enumerate(ops) if c == who]
    return idx[-1] if idx else None


def rule_keep_twice(path, mine, theirs):
    """Participant 0 keeps `path` twice (marker between), participant 1 keeps other code at the same path. If everything
    participant 1 did lies before the marker, participant 0's second keep is the latest evaluation: the path serves its value."""
    def rule(ops, results):
        m, last1 = _marker_index(ops, 0, "MARK_second_keep"), _last_index(ops, 1)
        if m is not None and last1 is not None and last1 < m:
            return {(path, "data"): [mine]}, []
        first1 = min([i for i, (c, k, p) in enumerate(ops) if c == 1] or [0])
        last0 = _last_index(ops, 0)
        if last0 is not None and last0 < first1:
            return {(path, "data"): [theirs]}, []
        return {}, []
    return rule


def rule_load_twice(old, new):
    """Participant 0 loads twice (marker between), participant 1 re-keeps the path with new code. A load that starts after
    participant 1 finished returns the new value; one that ends before participant 1 starts returns the old one."""
    def rule(ops, results):
        m, last1 = _marker_index(ops, 0, "MARK_second_load"), _last_index(ops, 1)
        first1 = min([i for i, (c, k, p) in enumerate(ops) if c == 1] or [0])
        a = [old, new]
        b = [old, new]
        if m is not None and last1 is not None and last1 < m:
            b = [new]
        if m is not None and m < first1:
            a = [old]
        return {}, [(0, [(x, y) for x in a for y in b])]
    return rule


def scenarios():
    k, ld = scen.act_keep, scen.act_load
    T, T2 = E["s_text"], E["s_text_v2"]
    nested_final = {("/shared/dir/leaf_a", "data"): [E["n_leaf_a"]], ("/shared/dir/leaf_b", "data"): [E["n_leaf_b"]], ("/shared/dir/mid", "data"): [E["n_mid"]]}
    return [
        SC("same-keep-cold-store", [], [k("/c7/x", "s_text"), k("/c7/x", "s_text")], [[T], [T]], {("/c7/x", "data"): [T]}, [(k("/c7/x", "s_text"), [T])]),
        SC("same-keep-pickle-warm-store", [scen.act_create_store()], [k("/c7/o", "s_obj"), k("/c7/o", "s_obj")], [[E["s_obj"]], [E["s_obj"]]], {("/c7/o", "data"): [E["s_obj"]]}, [(k("/c7/o", "s_obj"), [E["s_obj"]])]),
        SC("rekeep-vs-reader", [k("/c7/p", "s_text")], [k("/c7/p", "s_text_v2"), ld("/c7/p")], [[T2], [T, T2]], {("/c7/p", "data"): [T2]}, [(k("/c7/p", "s_text_v2"), [T2])]),
        SC("keep-new-vs-keep-old", [k("/c7/p", "s_text")], [k("/c7/p", "s_text_v2"), k("/c7/p", "s_text")], [[T2], [T]], {("/c7/p", "data"): [T, T2]}, [(k("/c7/p", "s_text_v2"), [T2])]),
        SC("two-nested-evals+reader", [k("/shared/dir/leaf_a", "n_leaf_a")], [scen.act_eval_top(), scen.act_eval_top(), ld("/shared/dir/leaf_a")], [[E["n_top"]], [E["n_top"]], [E["n_leaf_a"]]], nested_final,
           [(scen.act_eval_top(), [E["n_top"]])]),
        SC("default-store-creation-race", [], [scen.act_default_store_keep("/c7/d", "s_text"), scen.act_default_store_keep("/c7/d", "s_text")], [[T], [T]], {}, [(scen.act_default_store_keep("/c7/d", "s_text"), [T]), (scen.act_default_store_load("/c7/d"), [T])]),
        SC("shared-internal-two-views", [], [k("/c7/p", "s_text", data="data"), k("/c7/p", "s_text", data="data2")], [[T], [T]], {("/c7/p", "data"): [T], ("/c7/p", "data2"): [T]}, [(k("/c7/p", "s_text", data="data2"), [T])]),
        SC("shared-internal-two-views-different-code", [k("/c7/p", "s_text")], [k("/c7/p", "s_text_v2", data="data2"), ld("/c7/p", "data")], [[T2], [T]], {("/c7/p", "data"): [T], ("/c7/p", "data2"): [T2]}, [(k("/c7/p", "s_text_v2", data="data2"), [T2])]),
        SC("same-keep-frame-parquet", [], [k("/c7/f", "s_frame"), k("/c7/f", "s_frame")], [[scen.frame_value()], [scen.frame_value()]], {("/c7/f", "data"): [scen.frame_value()]}, [(k("/c7/f", "s_frame"), [scen.frame_value()])]),
        SC("rekeep-vs-reader-with-object-cache", [k("/c7/p", "s_text", cache=2)], [k("/c7/p", "s_text_v2", cache=2), scen.act_load("/c7/p")], [[T2], [T, T2]], {("/c7/p", "data"): [T2]}, [(k("/c7/p", "s_text_v2", cache=2), [T2])]),
        # a long-lived store object with the object cache evaluates twice while another process commits other code for the path
        SC("keep-twice-with-object-cache-vs-keep-new", [], [scen.act_keep_twice("/c7/p", "s_text", cache=2), k("/c7/p", "s_text_v2", cache=2)], [[(T, T)], [T2]], {("/c7/p", "data"): [T, T2]},
           [(k("/c7/p", "s_text_v2"), [T2])], order_rule=rule_keep_twice("/c7/p", T, T2)),
        SC("keep-twice-vs-keep-new", [k("/c7/p", "s_text")], [scen.act_keep_twice("/c7/p", "s_text"), k("/c7/p", "s_text_v2")], [[(T, T)], [T2]], {("/c7/p", "data"): [T, T2]},
           [(k("/c7/p", "s_text_v2"), [T2])], order_rule=rule_keep_twice("/c7/p", T, T2)),
        SC("load-twice-with-object-cache-vs-rekeep", [k("/c7/p", "s_text")], [scen.act_load_twice("/c7/p", cache=2), k("/c7/p", "s_text_v2")], [[(x, y) for x in (T, T2) for y in (T, T2)], [T2]], {("/c7/p", "data"): [T2]},
           [(k("/c7/p", "s_text_v2"), [T2])], order_rule=rule_load_twice(T, T2)),
    ] + [
        # the same keep by two processes on a cold store, the first one suffers one transient I/O failure before its k-th
        # operation: whatever it does about it, the value the other process returned and committed stays served
        SC("same-keep-cold-store+transient-failure@%d" % kf, [], [scen.act_with_fault(k("/c7/x", "s_text"), kf), k("/c7/x", "s_text")], [[T], [T]], {("/c7/x", "data"): [T]},
           [(k("/c7/x", "s_text"), [T]), (ld("/c7/x"), [T])], may_fail=(0,)) for kf in range(1, 34)
    ] + [
        # a kept function that loads a path, evaluated while another process re-keeps that path with other code: whatever the
        # order, a later evaluation of the reader (after the path went back to the first code) returns what plain execution returns
        SC("reader-keep-vs-rekeep-of-its-input", [k("/c7/p", "s_text")], [k("/c7/r", "s_reader"), k("/c7/p", "s_text_v2")], [[("reader", T), ("reader", T2)], [T2]],
           {("/c7/p", "data"): [T2], ("/c7/r", "data"): [("reader", T), ("reader", T2)]}, [(k("/c7/p", "s_text"), [T]), (k("/c7/r", "s_reader"), [("reader", T)]), (k("/c7/p", "s_text_v2"), [T2]), (k("/c7/r", "s_reader"), [("reader", T2)])]),
    ] + [
        # the blobs were cleaned away while the data directory kept its (now dangling) links: a reader (which may fail) and a
        # writer that computes the result again - what the writer returned and committed is served afterwards
        SC("load-vs-keep-after-blobs-were-emptied", [k("/c7/p", "s_text"), k("/c7/q", "s_obj"), scen.act_empty_internal()], [ld("/c7/p"), k("/c7/p", "s_text")], [[T], [T]], {("/c7/p", "data"): [T]},
           [(ld("/c7/p"), [T]), (k("/c7/p", "s_text"), [T])], may_fail=(0,)),
    ] + [
        # a store whose blobs were written days ago: two readers, and a reader next to a keep that is served from the store
        SC("two-loads-of-an-old-blob", [k("/c7/p", "s_text"), scen.act_age_metadata(3)], [ld("/c7/p"), ld("/c7/p")], [[T], [T]], {("/c7/p", "data"): [T]}, [(k("/c7/p", "s_text"), [T])]),
        SC("load-vs-served-keep-of-an-old-blob", [k("/c7/p", "s_obj"), scen.act_age_metadata(400)], [ld("/c7/p"), k("/c7/p", "s_obj")], [[E["s_obj"]], [E["s_obj"]]], {("/c7/p", "data"): [E["s_obj"]]}, [(ld("/c7/p"), [E["s_obj"]])]),
    ] + [
        # both processes register the same user file codec for dict results before they keep; one of them is a session that
        # had kept a dict result before registering it: blob and metadata written by the two must still belong together
        SC("same-keep-user-codec-registered-late-in-one-process", [], [scen.act_keep_user_codec("/c7/u", "s_dict", earlier="s_dict_earlier"), scen.act_keep_user_codec("/c7/u", "s_dict")], [[E["s_dict"]], [E["s_dict"]]], {},
           [(scen.act_load_user_codec("/c7/u"), [E["s_dict"]]), (scen.act_keep_user_codec("/c7/u", "s_dict"), [E["s_dict"]]), (scen.act_load_user_codec("/c7/earlier"), [E["s_dict_earlier"]])]),
        SC("nested-eval-cold-twice", [], [scen.act_eval_top(), scen.act_eval_top()], [[E["n_top"]], [E["n_top"]]], nested_final, [(scen.act_eval_top(), [E["n_top"]])]),
    ]


def run_one(sc, tmpl, run, workdir, prefix, rep, si):
    if os.path.exists(run):
        shutil.rmtree(run)
    _copy_store(tmpl, run)
    choices, ops, results, error = sched.execute(sc["actions"], run, prefix, workdir)
    rep.evaluations += 1
    if error:
        rep.count("executions_blocked")
        rep.extra.setdefault("blocked", []).append("%s %r: %s" % (sc["name"], prefix[-6:], error))
        return choices, ops
    rep.count("executions")
    order = tuple((c, k, p if len(p) < 24 else p[:8] + p[-12:]) for c, k, p in ops)
    rep.extra.setdefault("_orders", set()).add(hash(tuple((c, k) for c, k, _ in ops)) ^ hash(tuple(p for _, _, p in ops)))
    sched_desc = "".join(str(c) for _, c in choices)
    case = {"scenario_index": si, "scenario": sc["name"], "schedule": [c for _, c in choices]}
    # where the last switch happened (for the mechanism label)
    sw = [(ops[i][1], file_class(ops[i][2]) if ops[i][2] not in ("-", ".") else "-") for i in range(1, len(ops)) if ops[i][0] != ops[i - 1][0]]

    def bad(what, kind):
        rep.violate("%s, schedule %s: %s" % (sc["name"], sched_desc if len(sched_desc) < 80 else sched_desc[:40] + ".." + sched_desc[-30:], what), case,
                    mechanism=kind, features={"switches": sw[:6]})

    ok = True
    final = dict(sc["final"])
    if sc.get("order_rule"):
        fo, po = sc["order_rule"](ops, results)
        final.update(fo)
        if fo or po:
            rep.count("executions_decided_by_operation_order")
        for (pi, allowed) in po:
            r = results[pi]
            if r is not None and r["out"][0] == "ok" and not any(_eq(r["out"][1], a) for a in allowed):
                bad("participant %d (%s) returned %s although the recorded operation order leaves only %d possibilities" % (pi, sc["actions"][pi].__name__, _short(r["out"][1]), len(allowed)), "participant-stale-value")
                ok = False
    for i, r in enumerate(results):
        rep.count("participant_results")
        if r is None:
            bad("participant %d (%s) left no result" % (i, sc["actions"][i].__name__), "participant-died")
            ok = False
        elif i in sc.get("may_fail", ()) and (r["out"][0] != "ok" or not any(_eq(r["out"][1], a) for a in sc["expected"][i])):
            # this participant had a transient I/O failure injected: whatever it makes of it (an exception, or a wrong
            # answer because os.path.exists() read the failure as "absent") is its own problem - the property is about the
            # other participants and about what the store serves afterwards
            rep.count("participants_disturbed_by_injected_fault")
        elif r["out"][0] != "ok":
            bad("participant %d (%s) raised %s(%s)" % (i, sc["actions"][i].__name__, r["out"][1], r["out"][2][:140]), "participant-raised:" + r["out"][1])
            ok = False
        elif not any(_eq(r["out"][1], a) for a in sc["expected"][i]):
            bad("participant %d (%s) returned %s" % (i, sc["actions"][i].__name__, _short(r["out"][1])), "participant-wrong-value")
            ok = False
    # final state, observed by fresh processes
    for (path, view), allowed in final.items():
        r = core.fork_call(_child, (scen.act_load(path, view), run, None, None, None), timeout=120)
        rep.count("final_loads")
        if isinstance(r, core.JobFailed):
            rep.inconclusive.append("final load worker failed: %r" % (r,))
        elif r["out"][0] != "ok" or not any(_eq(r["out"][1], a) for a in allowed):
            bad("after all processes finished load(%s) gives %s" % (path, _short(r["out"][1]) if r["out"][0] == "ok" else "%s(%s)" % (r["out"][1], r["out"][2][:100])), "final-state-wrong")
            ok = False
    for act, allowed in sc["verify"]:
        r = core.fork_call(_child, (act, run, None, None, None), timeout=120)
        rep.count("final_evaluations")
        if isinstance(r, core.JobFailed):
            rep.inconclusive.append("final worker failed: %r" % (r,))
        elif r["out"][0] != "ok" or not any(_eq(r["out"][1], a) for a in allowed):
            bad("after all processes finished %s gives %s" % (act.__name__, _short(r["out"][1]) if r["out"][0] == "ok" else "%s(%s)" % (r["out"][1], r["out"][2][:100])), "final-evaluation-wrong")
            ok = False
    if ok and sched.preemptions(choices) >= 1:
        rep.nontriv(("c07", sc["name"], sched_desc))
    return choices, ops


def subtree_job(arg):
    si, prefixes, bound, max_exec = arg
    sc = scenarios()[si]
    rep = core.Report("C07", level="exploration")
    with core.Scratch("vp_c07_") as td:
        tmpl = os.path.join(td, "template")
        os.makedirs(tmpl)
        for a in sc["setup"]:
            r = core.fork_call(_child, (a, tmpl, None, None, None), timeout=120)
            if isinstance(r, core.JobFailed) or r["out"][0] != "ok":
                rep.inconclusive.append("%s: setup failed: %r" % (sc["name"], r))
                return rep, []
        run = os.path.join(td, "run")
        work = os.path.join(td, "work")
        os.makedirs(work)
        stack = [list(p) for p in prefixes]
        expanded = []
        n = 0
        while stack:
            if n >= max_exec:
                rep.count("schedules_not_explored_budget", len(stack))
                break
            prefix = stack.pop()
            choices, ops = run_one(sc, tmpl, run, work, prefix, rep, si)
            n += 1
            if prefixes == [[]] and max_exec == 1:
                expanded = sched.children_of(choices, len(prefix), bound)
                rep.extra["root_ops"] = ["P%d %s %s" % (c, k, p if len(p) < 50 else p[:20] + ".." + p[-22:]) for c, k, p in ops][:80]
                rep.extra["root_len"] = len(ops)
                break
            stack += sched.children_of(choices, len(prefix), bound)
        rep.extra["n_orders"] = len(rep.extra.pop("_orders", set()))
    return rep, expanded


def run(tier, seed):
    rep = core.Report("C07", level="exploration")
    scs = scenarios()
    bound = 1 if tier == "quick" else 2
    rep.rule = (
        "scenarios %r: real processes under a controlled scheduler at file-system-operation granularity (stat, mkdir, open, each half of each write, close, rename, symlink, ...); all schedules with at most "
        "%d preemption(s) are executed (depth-first by re-execution); after each execution fresh processes load and re-evaluate everything. distinct_nontrivial = distinct executed schedules with >= 1 preemption "
        "whose participants and final state were all correct. The transient-failure scenarios inject one OSError before the k-th operation of the first participant (k = 1..33, one preemption)." % ([s["name"] for s in scs if "transient-failure@" not in s["name"]] + ["same-keep-cold-store+transient-failure@k"], bound)
    )
    # root executions (one per scenario) give the first level of the schedule tree
    def is_fault(sc):
        return "transient-failure@" in sc["name"]

    # fault scenarios: one preemption in both tiers; the quick tier takes every third failure position (rotating with the seed)
    active = [i for i, sc in enumerate(scs) if not is_fault(sc) or tier != "quick" or int(sc["name"].split("@")[1]) % 3 == seed % 3]
    bounds = dict((i, 1 if is_fault(scs[i]) else bound) for i in active)
    roots_l = core.fork_map(subtree_job, [(i, [[]], bounds[i], 1) for i in active], timeout=600)
    jobs = []
    for i, r in zip(active, roots_l):
        if isinstance(r, core.JobFailed):
            rep.inconclusive.append("root execution of %s: %r" % (scs[i]["name"], r))
            continue
        sub, expanded = r
        rep.merge(sub)
        rep.extra.setdefault("ops_per_default_execution", {})[scs[i]["name"]] = sub.extra.get("root_len")
        if i == 2:
            rep.sample({"scenario": scs[i]["name"], "default_schedule_operations": sub.extra.get("root_ops", [])[:50]})
        rng = core.rng_for(seed, "c07", i)
        rng.shuffle(expanded)
        # partition the first-level prefixes over the workers
        nparts = 16
        cap = 400 if tier == "quick" else 6000
        for k in range(nparts):
            part = expanded[k::nparts]
            if part:
                jobs.append((i, part, bounds[i], cap))
    results = core.fork_map(subtree_job, jobs, timeout=3300)
    orders = 0
    for j, r in zip(jobs, results):
        if isinstance(r, core.JobFailed):
            rep.inconclusive.append("subtree of %s: %r" % (scs[j[0]]["name"], r))
            continue
        sub, _ = r
        orders += sub.extra.get("n_orders", 0)
        for b in sub.extra.get("blocked", [])[:3]:
            rep.extra.setdefault("blocked_executions", []).append(b)
        rep.merge(sub)
        rep.bump("executions_per_scenario", scs[j[0]]["name"], sub.counters.get("executions", 0))
    rep.extra["distinct_operation_orders_executed"] = orders
    blocked = rep.counters.get("executions_blocked", 0)
    if blocked > max(2, rep.counters.get("executions", 0) // 50):
        rep.inconclusive.append("%d executions blocked (watchdog)" % blocked)
    if not rep.counters.get("executions"):
        rep.inconclusive.append("no schedule was executed")
    rep.assumptions = ["exhaustive only up to the preemption bound (and the per-subtree execution budget, reported as schedules_not_explored_budget) and at Python-visible operation granularity",
                       "a single file-system operation is atomic"]
    return rep


def replay(payload):
    rep = core.Report("C07")
    c = payload["case"]
    r, _ = subtree_job((c["scenario_index"], [c["schedule"]], 0, 1))
    rep.merge(r)
    return rep
