"""
C16 - every usable local-store configuration works; data dirs are independent views.

Monitor: values returned by keep / load in the configuring process (before and after os.chdir),
in a second process with another working directory, and in a third one configured exactly like
the first; the execution log of the kept functions (no recomputation); for two data-dir views
of one internal dir: log, values and DDS errors of loads in each view.
"""
import os

from vp import core, vlog

FORMS = ["absolute", "relative", "trailing_slash", "nested_missing", "symlinked_parent", "symlinked_parent_other_depth", "other_filesystem", "name_extends_data_name", "name_extends_internal_name", "internal_below_data", "name_ends_with_dot", "relative_through_dotdot"]
CACHE = [None, False, True, 0, -1, 3]


def node1():
    vlog.hit("node1")
    return "value-of-node1"


def node2(n):
    vlog.hit("node2")
    return {"value-of-node2": [n, None]}


def node1_v2():
    vlog.hit("node1_v2")
    return "value-of-node1-second-version"


def dir_for(form, base, name):
    """(path as given to set_store from cwd=base, absolute real path)."""
    if form == "absolute":
        p = os.path.join(base, name + "_abs")
        return p, p
    if form == "relative":
        return name + "_rel", os.path.join(base, name + "_rel")
    if form == "trailing_slash":
        p = os.path.join(base, name + "_tr")
        return p + "/", p
    if form == "nested_missing":
        p = os.path.join(base, name + "_n1", "n2", "n3", name)
        return p, p
    if form == "symlinked_parent":
        real = os.path.join(base, name + "_realparent")
        link = os.path.join(base, name + "_linkparent")
        os.makedirs(real, exist_ok=True)
        if not os.path.lexists(link):
            os.symlink(real, link)
        return os.path.join(link, name), os.path.join(real, name)
    if form == "symlinked_parent_other_depth":
        # the link and its target are at different depths: a relative link target computed from the
        # textual path would point somewhere else
        real = os.path.join(base, name + "_volumes", "disk1", "projects")
        link = os.path.join(base, name + "_work")
        os.makedirs(real, exist_ok=True)
        if not os.path.lexists(link):
            os.symlink(real, link)
        return os.path.join(link, name), os.path.join(real, name)
    if form == "other_filesystem":
        # a directory on another file system than the system's temporary directory (a data disk, a tmpfs): a file
        # cannot be renamed into it from elsewhere
        o = core.other_filesystem_dir(base)
        if o is None:
            p = os.path.join(base, name + "_abs2")
            return p, p
        return os.path.join(o, name), os.path.join(o, name)
    # names of the two directories related to each other (when both are given in the same form): siblings of which one
    # name is the beginning of the other, and the internal directory below the data directory
    if form == "name_extends_data_name":
        p = os.path.join(base, "proj_store" if name == "internal" else "proj")
        return p, p
    if form == "name_extends_internal_name":
        p = os.path.join(base, "st" if name == "internal" else "st_data")
        return p, p
    if form == "name_ends_with_dot":
        p = os.path.join(base, name + "_v1.")
        return p, p
    if form == "relative_through_dotdot":
        # a relative spelling that goes down and up again: <name>_dd/sub/.. is <name>_dd
        return os.path.join(name + "_dd", "sub", ".."), os.path.join(base, name + "_dd")
    if form == "internal_below_data":
        p = os.path.join(base, "ws", ".dds_internal") if name == "internal" else os.path.join(base, "ws")
        return p, p
    raise ValueError(form)


def _proc(arg):
    """One process: configure, then a list of actions; returns observations."""
    cwd, idir, ddir, cache, actions = arg
    import dds
    from dds.structures import DDSException

    dds.accept_module("checks")
    os.chdir(cwd)
    obs = []
    try:
        dds.set_store("local", internal_dir=idir, data_dir=ddir, cache_objects=cache)
    except BaseException as e:
        return [("set_store", "exc", "%s: %s" % (type(e).__name__, str(e)[:150]), [])]
    for act in actions:
        vlog.clear()
        try:
            if act[0] == "keep1":
                r = dds.keep("/c16/x/one", node1)
            elif act[0] == "keep2":
                r = dds.keep("/c16/two", node2, 5)
            elif act[0] == "keep1_v2":
                r = dds.keep("/c16/x/one", node1_v2)
            elif act[0] == "keep_q":
                r = dds.keep("/c16/q", node2, 7)
            elif act[0] == "load":
                r = dds.load(act[1])
            elif act[0] == "chdir":
                os.chdir(act[1])
                r = None
            elif act[0] == "set_store":
                dds.set_store("local", internal_dir=act[1], data_dir=act[2], cache_objects=cache)
                r = None
            elif act[0] == "repoint":
                # the name `act[1]` (a symbolic link) now leads to another directory
                tmp = act[1] + ".swap"
                os.symlink(act[2], tmp)
                os.replace(tmp, act[1])
                r = None
            obs.append((act, "ok", r, vlog.snapshot()))
        except DDSException as e:
            obs.append((act, "dds", str(e)[:150], vlog.snapshot()))
        except BaseException as e:
            obs.append((act, "exc", "%s: %s" % (type(e).__name__, str(e)[:150]), vlog.snapshot()))
    return obs


V1, V2, V1B, VQ = node1.__wrapped__() if hasattr(node1, "__wrapped__") else "value-of-node1", {"value-of-node2": [5, None]}, "value-of-node1-second-version", {"value-of-node2": [7, None]}


def _default_proc(arg):
    """A process on the default local store: `how` = "implicit" (dds.set_store is never called), "explicit" (set_store("local")
    without directories) or "explicit-cached" (the same with cache_objects=True); the system's temporary directory is `tmp`."""
    tmp, how, actions = arg
    import tempfile

    import dds
    from dds import _api

    tempfile.tempdir = tmp
    _api._store_var = None
    dds.accept_module("checks")
    obs = []
    if how != "implicit":
        dds.set_store("local", cache_objects=True if how == "explicit-cached" else None)
    for act in actions:
        vlog.clear()
        try:
            if act == "keep1":
                r = dds.keep("/c16/x/one", node1)
            elif act == "keep1_v2":
                r = dds.keep("/c16/x/one", node1_v2)
            else:
                r = dds.load("/c16/x/one")
            obs.append((act, "ok", r, vlog.snapshot()))
        except BaseException as e:
            obs.append((act, "exc", "%s: %s" % (type(e).__name__, str(e)[:150]), vlog.snapshot()))
    return obs


def default_store_job(arg, prop="C16"):
    """The all-default configuration is one store whichever way a process arrives at it: never calling set_store, or calling
    set_store("local") without directories (with or without the object cache). What one process keeps the other loads, and
    keeps again without executing anything."""
    first, second = arg
    rep = core.Report(prop)
    rep.evaluations = 1
    case = {"default_store": True, "first": first, "second": second}
    with core.Scratch("vp_c16d_") as td:
        a = core.fork_call(_default_proc, (td, first, ["keep1", "load"]), timeout=300)
        b = core.fork_call(_default_proc, (td, second, ["load", "keep1", "keep1_v2", "load"]), timeout=300)
        c = core.fork_call(_default_proc, (td, first, ["load", "keep1_v2"]), timeout=300)
    if any(isinstance(x, core.JobFailed) for x in (a, b, c)):
        rep.inconclusive.append("default-store job: %r %r %r" % (a, b, c))
        return rep
    want = [(a, "first process (%s)" % first, [("keep1", V1, None), ("load", V1, None)]),
            (b, "second process (%s)" % second, [("load", V1, []), ("keep1", V1, []), ("keep1_v2", V1B, None), ("load", V1B, None)]),
            (c, "third process (%s again)" % first, [("load", V1B, []), ("keep1_v2", V1B, [])])]
    for obs, who, exp in want:
        for (act, st, r, lg), (eact, ev, elog) in zip(obs, exp):
            rep.count("observations")
            if st != "ok" or r != ev:
                rep.violate("default local store, %s: %s gives %r, expected %r" % (who, act, r if st == "ok" else (st, r), ev), case, mechanism="default-store-not-one-store")
                return rep
            if elog is not None and lg != elog:
                rep.violate("default local store, %s: %s executed %r although another process on the same default store had kept it" % (who, act, lg), case, mechanism="default-store-not-one-store")
                return rep
    rep.nontriv(("c16default", first, second))
    return rep


def mech(iform, dform, what):
    if "relative" in (iform, dform):
        return "relative-directory"
    return None


def case_job(arg):
    iform, dform, cache = arg
    rep = core.Report("C16")
    rep.evaluations = 1
    case = {"internal_form": iform, "data_form": dform, "cache_objects": cache}
    with core.Scratch("vp_c16_") as base0:
        base = os.path.realpath(base0)
        other = os.path.join(base, "elsewhere")
        os.makedirs(other)
        igiven, iabs = dir_for(iform, base, "internal")
        dgiven, dabs = dir_for(dform, base, "data")

        def expect(obs, idx, status, value=None, log=None, label=""):
            act, st, r, lg = obs[idx]
            rep.count("observations")
            if st != status or (status == "ok" and value is not None and r != value):
                rep.violate(
                    "internal=%s data=%s cache=%r %s: %r -> %s %r (expected %s %r)" % (iform, dform, cache, label, act, st, repr(r)[:120], status, value),
                    dict(case, label=label, action=act), mechanism=mech(iform, dform, label))
                return False
            if log is not None and lg != log:
                rep.violate(
                    "internal=%s data=%s cache=%r %s: %r executed %r (expected %r)" % (iform, dform, cache, label, act, lg, log),
                    dict(case, label=label, action=act), mechanism=mech(iform, dform, label))
                return False
            return True

        # process A: configure from cwd=base, keep, load, chdir, load + re-keep
        acts = [("keep1",), ("keep2",), ("load", "/c16/x/one"), ("load", "/c16/two"), ("keep1",), ("chdir", other), ("load", "/c16/x/one"), ("load", "/c16/two"), ("keep1",), ("keep2",)]
        oa = core.fork_call(_proc, (base, igiven, dgiven, cache, acts), timeout=120)
        if isinstance(oa, core.JobFailed):
            rep.inconclusive.append("process A: %r" % (oa,))
            return rep
        if oa and oa[0][0] == "set_store":
            rep.violate("set_store(local, internal=%s, data=%s, cache_objects=%r) raised %s" % (iform, dform, cache, oa[0][2]), case, mechanism=mech(iform, dform, "set_store"))
            return rep
        ok = expect(oa, 0, "ok", V1, ["node1"], "A first keep")
        ok &= expect(oa, 1, "ok", V2, ["node2"], "A first keep with argument")
        ok &= expect(oa, 2, "ok", V1, [], "A load")
        ok &= expect(oa, 3, "ok", V2, [], "A load")
        ok &= expect(oa, 4, "ok", V1, [], "A re-keep")
        ok &= expect(oa, 6, "ok", V1, [], "A load after chdir")
        ok &= expect(oa, 7, "ok", V2, [], "A load after chdir")
        ok &= expect(oa, 8, "ok", V1, [], "A re-keep after chdir")
        ok &= expect(oa, 9, "ok", V2, [], "A re-keep after chdir")
        # process B: other cwd, directories by absolute real path
        acts = [("load", "/c16/x/one"), ("load", "/c16/two"), ("keep1",), ("keep2",)]
        ob = core.fork_call(_proc, (other, iabs, dabs, cache, acts), timeout=120)
        if isinstance(ob, core.JobFailed):
            rep.inconclusive.append("process B: %r" % (ob,))
            return rep
        if ob and ob[0][0] == "set_store":
            rep.violate("process B set_store raised %s" % (ob[0][2],), case, mechanism=mech(iform, dform, "B"))
        else:
            ok &= expect(ob, 0, "ok", V1, [], "B (other process, other cwd) load")
            ok &= expect(ob, 1, "ok", V2, [], "B load")
            ok &= expect(ob, 2, "ok", V1, [], "B re-keep")
            ok &= expect(ob, 3, "ok", V2, [], "B re-keep")
        # process C: same cwd and same spelling as A
        oc = core.fork_call(_proc, (base, igiven, dgiven, cache, acts), timeout=120)
        if isinstance(oc, core.JobFailed):
            rep.inconclusive.append("process C: %r" % (oc,))
            return rep
        if oc and oc[0][0] == "set_store":
            rep.violate("process C set_store raised %s" % (oc[0][2],), case, mechanism=mech(iform, dform, "C"))
        else:
            ok &= expect(oc, 0, "ok", V1, [], "C (new process, same configuration) load")
            ok &= expect(oc, 1, "ok", V2, [], "C load")
            ok &= expect(oc, 2, "ok", V1, [], "C re-keep")
            ok &= expect(oc, 3, "ok", V2, [], "C re-keep")
        rep.nontriv(("c16", iform, dform, repr(cache)))
    return rep


def views_job(arg):
    iform, cache, same_process = arg
    rep = core.Report("C16")
    rep.evaluations = 1
    case = {"views": True, "internal_form": iform, "cache_objects": cache, "same_process": same_process}
    with core.Scratch("vp_c16v_") as base0:
        base = os.path.realpath(base0)
        igiven, iabs = dir_for(iform, base, "internal")
        d1 = os.path.join(base, "view1")
        d2 = os.path.join(base, "view2")
        script = [
            ("keep1",), ("keep_q",),  # view 1 computes /c16/x/one and /c16/q
            ("set_store", igiven, d2),
            ("keep1",),  # view 2: same node -> served from the shared blobs, nothing executes
            ("load", "/c16/x/one"),
            ("load", "/c16/q"),  # never kept through view 2 -> DDS error
            ("keep1_v2",),  # view 2 re-keeps the path with other code
            ("load", "/c16/x/one"),
            ("set_store", igiven, d1),
            ("load", "/c16/x/one"),  # view 1 unchanged
            ("load", "/c16/q"),
            ("keep1",),  # still served
            # now the other way round: view 1 moves to the second version first, then view 2 goes back to the
            # first version, then view 1 goes back too (its link still points to the second version's blob)
            ("keep1_v2",),
            ("load", "/c16/x/one"),
            ("set_store", igiven, d2),
            ("keep1",),
            ("load", "/c16/x/one"),
            ("set_store", igiven, d1),
            ("load", "/c16/x/one"),
            ("keep1",),
            ("load", "/c16/x/one"),
            ("set_store", igiven, d2),
            ("load", "/c16/x/one"),
        ]
        expected = [("ok", V1, ["node1"]), ("ok", VQ, ["node2"]), ("ok", None, None), ("ok", V1, []), ("ok", V1, []), ("dds", None, None), ("ok", V1B, ["node1_v2"]), ("ok", V1B, []),
                    ("ok", None, None), ("ok", V1, []), ("ok", VQ, []), ("ok", V1, []),
                    ("ok", V1B, []), ("ok", V1B, []), ("ok", None, None), ("ok", V1, []), ("ok", V1, []), ("ok", None, None), ("ok", V1B, []), ("ok", V1, []), ("ok", V1, []),
                    ("ok", None, None), ("ok", V1, [])]
        if same_process:
            obs = core.fork_call(_proc, (base, igiven, d1, cache, script), timeout=120)
            if isinstance(obs, core.JobFailed):
                rep.inconclusive.append("views process: %r" % (obs,))
                return rep
        else:
            # one process per view switch
            obs = []
            cur = d1
            chunk = []
            chunks = []
            for a in script:
                if a[0] == "set_store":
                    chunks.append((cur, chunk))
                    cur, chunk = a[2], []
                else:
                    chunk.append(a)
            chunks.append((cur, chunk))
            for i, (dd, ch) in enumerate(chunks):
                o = core.fork_call(_proc, (base, igiven, dd, cache, ch), timeout=120)
                if isinstance(o, core.JobFailed):
                    rep.inconclusive.append("views process: %r" % (o,))
                    return rep
                if i > 0:
                    obs.append((("set_store",), "ok", None, []))
                obs += o
        if obs and obs[0][0] == "set_store":
            rep.violate("views: set_store raised %s" % (obs[0][2],), case, mechanism=mech(iform, "absolute", "views"))
            return rep
        for i, ((act, st, r, lg), (est, ev, elog)) in enumerate(zip(obs, expected)):
            rep.count("observations")
            bad = st != est or (est == "ok" and ev is not None and r != ev) or (elog is not None and lg != elog)
            if bad:
                rep.violate("views (internal=%s cache=%r same_process=%s) step %d %r: %s %r log=%r, expected %s %r log=%r" % (iform, cache, same_process, i, act, st, repr(r)[:80], lg, est, ev, elog),
                            dict(case, step=i), mechanism=mech(iform, "absolute", "views"))
                break
        rep.nontriv(("c16v", iform, repr(cache), same_process))
    return rep


def _partial_proc(arg):
    """One process that configures the local store with only some of the directories given (the others default to
    <tempdir>/dds/...; tempfile.tempdir is pointed into the scratch directory)."""
    base, script, cache = arg
    import tempfile

    import dds
    from dds.structures import DDSException

    dds.accept_module("checks")
    tempfile.tempdir = os.path.join(base, "tmpdir")
    os.makedirs(tempfile.tempdir, exist_ok=True)
    obs = []
    for act in script:
        vlog.clear()
        try:
            if act[0] == "set_store":
                kw = dict(act[1])
                if cache is not None:
                    kw["cache_objects"] = cache
                dds.set_store("local", **kw)
                r = None
            elif act[0] == "keep1":
                r = dds.keep("/c16/x/one", node1)
            elif act[0] == "keep1_v2":
                r = dds.keep("/c16/x/one", node1_v2)
            elif act[0] == "load":
                r = dds.load(act[1])
            obs.append((act[0], "ok", r, vlog.snapshot()))
        except DDSException as e:
            obs.append((act[0], "dds", str(e)[:150], vlog.snapshot()))
        except BaseException as e:
            obs.append((act[0], "exc", "%s: %s" % (type(e).__name__, str(e)[:150]), vlog.snapshot()))
    return obs


def partial_job(arg):
    """set_store("local") with only data_dir, only internal_dir, or neither: the directories that are given are the ones
    that are used; two data directories given this way are two independent views."""
    cache, which = arg
    rep = core.Report("C16")
    rep.evaluations = 1
    case = {"partial": True, "cache_objects": cache, "which": which}
    with core.Scratch("vp_c16p_") as base0:
        base = os.path.realpath(base0)
        A, B, I = os.path.join(base, "viewA"), os.path.join(base, "viewB"), os.path.join(base, "int")
        if which == "data_only":
            cfg_a, cfg_b = {"data_dir": A}, {"data_dir": B}
        elif which == "internal_only":
            cfg_a, cfg_b = {"internal_dir": I}, {"internal_dir": I}
        else:
            cfg_a, cfg_b = {}, {}
        script = [("set_store", cfg_a), ("keep1",), ("load", "/c16/x/one"), ("set_store", cfg_b), ("keep1_v2",), ("load", "/c16/x/one"), ("set_store", cfg_a), ("load", "/c16/x/one")]
        same_view = which != "data_only"
        expected = [("ok", None), ("ok", V1), ("ok", V1), ("ok", None), ("ok", V1B), ("ok", V1B), ("ok", None), ("ok", V1B if same_view else V1)]
        obs = core.fork_call(_partial_proc, (base, script, cache), timeout=120)
        fresh = core.fork_call(_partial_proc, (base, [("set_store", cfg_a), ("load", "/c16/x/one")], None), timeout=120)
        here = dict((d, os.path.lexists(os.path.join(d, "c16", "x", "one"))) for d in (A, B))
    if isinstance(obs, core.JobFailed) or isinstance(fresh, core.JobFailed):
        rep.inconclusive.append("partial-configuration worker failed")
        return rep
    for i, ((act, st, r, lg), (est, ev)) in enumerate(zip(obs, expected)):
        rep.count("observations")
        if st != est or (ev is not None and r != ev):
            rep.violate("set_store('local') with %s (cache=%r): step %d %s gave %s %r, expected %s %r" % (which.replace("_", " "), cache, i, act, st, repr(r)[:80], est, ev), dict(case, step=i), mechanism="partial-directories")
            return rep
    if fresh[-1][1] != "ok" or fresh[-1][2] != (V1B if same_view else V1):
        rep.violate("set_store('local') with %s: a fresh process configured the same way loads %r" % (which.replace("_", " "), fresh[-1][2]), case, mechanism="partial-directories")
    if which == "data_only" and not (here[A] and here[B]):
        rep.violate("set_store('local', data_dir=X): nothing was created under the given data directories %r" % (here,), case, mechanism="partial-directories")
    rep.nontriv(("c16partial", repr(cache), which))
    return rep


def repoint_job(arg):
    """The same directory *names* are configured twice in one process while the directories behind them changed (a
    `current` link re-pointed to another, already initialised environment): the second configuration works on the
    second environment only - nothing remembered from the first one under that name."""
    cache, rel = arg
    rep = core.Report("C16")
    rep.evaluations = 1
    case = {"repoint": True, "cache_objects": cache, "relative": rel}
    with core.Scratch("vp_c16r_") as base0:
        base = os.path.realpath(base0)
        e1, e2, cur = os.path.join(base, "env1"), os.path.join(base, "env2"), os.path.join(base, "current")
        for e in (e1, e2):
            os.makedirs(e)
        # env2 already holds a store with another result
        o = core.fork_call(_proc, (base, os.path.join(e2, "internal"), os.path.join(e2, "data"), cache, [("keep_q",)]), timeout=120)
        os.symlink(e1, cur)
        ig, dg = ("current/internal", "current/data") if rel else (os.path.join(cur, "internal"), os.path.join(cur, "data"))
        script = [("keep1",), ("load", "/c16/x/one"), ("keep1",), ("repoint", cur, e2), ("set_store", ig, dg), ("keep1",), ("load", "/c16/x/one"), ("load", "/c16/q"), ("keep1",)]
        expected = [("ok", V1, ["node1"]), ("ok", V1, []), ("ok", V1, []), ("ok", None, None), ("ok", None, None), ("ok", V1, ["node1"]), ("ok", V1, []), ("ok", VQ, []), ("ok", V1, [])]
        obs = core.fork_call(_proc, (base, ig, dg, cache, script), timeout=120)
        fresh = core.fork_call(_proc, (base, os.path.join(e2, "internal"), os.path.join(e2, "data"), None, [("load", "/c16/x/one"), ("keep1",)]), timeout=120)
    if any(isinstance(x, core.JobFailed) for x in (o, obs, fresh)):
        rep.inconclusive.append("repoint job: worker failed")
        return rep
    if obs and obs[0][0] == "set_store":
        rep.violate("repoint: set_store raised %s" % (obs[0][2],), case, mechanism=mech("relative" if rel else "absolute", "absolute", "repoint"))
        return rep
    for i, ((act, st, r, lg), (est, ev, elog)) in enumerate(zip(obs, expected)):
        rep.count("observations")
        if st != est or (ev is not None and r != ev) or (elog is not None and lg != elog):
            rep.violate("same directory names configured again after the link behind them was re-pointed (cache=%r): step %d %r gave %s %r log=%r, expected %s %r log=%r" % (cache, i, act[:2], st, repr(r)[:80], lg, est, ev, elog),
                        dict(case, step=i), mechanism="stale-state-under-directory-name")
            return rep
    for (act, st, r, lg), (ev, elog) in zip(fresh, ((V1, []), (V1, []))):
        rep.count("observations")
        if st != "ok" or r != ev or lg != elog:
            rep.violate("after the re-pointed configuration kept /c16/x/one, a fresh process on the second environment's real directories gets %s %r log=%r for %r" % (st, repr(r)[:80], lg, act[:2]), case, mechanism="stale-state-under-directory-name")
            return rep
    rep.nontriv(("c16repoint", repr(cache), rel))
    return rep


def open_job(arg):
    """Opening a store on directories that are in use (files of a writer that is in the middle of storing a blob are
    there) changes nothing that exists: no file disappears or changes."""
    iform, cache = arg
    from vp import storemodel as SM

    rep = core.Report("C16")
    rep.evaluations = 1
    case = {"open": True, "internal_form": iform, "cache_objects": cache}
    with core.Scratch("vp_c16o_") as base0:
        base = os.path.realpath(base0)
        igiven, iabs = dir_for(iform, base, "internal")
        d1, d2 = os.path.join(base, "view1"), os.path.join(base, "view2")
        o = core.fork_call(_proc, (base, igiven, d1, cache, [("keep1",), ("keep_q",)]), timeout=120)
        if isinstance(o, core.JobFailed) or (o and o[0][0] == "set_store"):
            rep.inconclusive.append("open job: first process failed: %r" % (o,))
            return rep
        bdir = os.path.join(iabs, "blobs")
        if not os.path.isdir(bdir):
            rep.inconclusive.append("no blobs directory under %s" % iabs)
            return rep
        key = "f" * 64
        planted = [".%s.tmp.%d.%s" % (key, 4242, "0123456789abcdef0123456789abcdef"), ".%s.meta.tmp.%d.%s" % (key, 4242, "fedcba9876543210fedcba9876543210"), "%s.partial" % key, "notes.txt"]
        for fn in planted:
            with open(os.path.join(bdir, fn), "wb") as f:
                f.write(b"in-flight " + fn.encode())
        roots = [iabs, d1]
        before = dict((r, SM.walk(r)) for r in roots)
        for label, dd, acts in (("another data view", d2, []), ("the same data view", d1, [("load", "/c16/x/one")]), ("another data view + keep", d2, [("keep1",)])):
            o = core.fork_call(_proc, (base, igiven, dd, cache, acts), timeout=120)
            rep.count("observations")
            if isinstance(o, core.JobFailed) or (o and o[0][0] == "set_store"):
                rep.violate("opening a store (%s) on directories in use raised %r" % (label, o if isinstance(o, core.JobFailed) else o[0][2]), case, mechanism=mech(iform, "absolute", "open"))
                return rep
            for r in roots:
                now = SM.walk(r)
                gone = sorted(k for k in before[r] if k not in now)
                changed = sorted(k for k in before[r] if k in now and before[r][k] != now[k] and before[r][k][0] == "file")
                if gone or changed:
                    rep.violate("opening a store (%s, internal=%s cache=%r) on directories in use removed %r / changed %r" % (label, iform, cache, gone[:3], changed[:3]), case, mechanism="open-store-disturbs-existing-files")
                    return rep
    rep.nontriv(("c16o", iform, repr(cache)))
    return rep


def run(tier, seed):
    rep = core.Report("C16")
    rep.rule = (
        "internal_dir x data_dir forms %r (all combinations) x cache_objects %r; per configuration: process A keeps two nodes, loads, re-keeps, chdirs, loads and re-keeps again; "
        "process B (other cwd, absolute real paths) and process C (same cwd and spelling) load and re-keep with an empty execution log; two-view scripts (one internal dir, two data dirs) in one process and "
        "with one process per view switch; and opening further stores on directories that hold the files of a writer in mid-flight (nothing that exists may disappear or change); the same directory names configured twice in one process around a re-pointed `current` link; set_store with only some of the directories given; one data directory used with two internal directories in turn, the first one removed afterwards; the all-default store reached implicitly (set_store never called) and explicitly (set_store('local') without directories, with and without the object cache) by different processes. distinct_nontrivial = distinct configurations whose processes were all observed." % (FORMS, CACHE)
    )
    jobs = []
    for i, iform in enumerate(FORMS):
        for j, dform in enumerate(FORMS):
            caches = CACHE if tier != "quick" else [CACHE[(i * 6 + j + seed) % len(CACHE)], CACHE[(i * 6 + j + seed + 3) % len(CACHE)]]
            for c in caches:
                jobs.append(("case", (iform, dform, c)))
    for iform in FORMS:
        for c in (CACHE if tier != "quick" else [None, 3]):
            for sp in (True, False):
                jobs.append(("views", (iform, c, sp)))

    for iform in FORMS:
        for c in (CACHE if tier != "quick" else [None, 3]):
            jobs.append(("open", (iform, c)))

    for c in CACHE:
        for rel in (False, True):
            jobs.append(("repoint", (c, rel)))

    for c in (None, 3):
        for which in ("data_only", "internal_only", "neither"):
            jobs.append(("partial", (c, which)))

    # one data directory taken over by a store with another internal directory (the first one is removed afterwards)
    from vp import progs

    for ci, c in enumerate((None, 3, True)):
        jobs.append(("takeover", (progs.base_program("c16t%d" % ci, layout=("three", "one", "deep")[ci]), c, ci)))

    for first, second in (("implicit", "explicit"), ("explicit", "implicit"), ("implicit", "explicit-cached"), ("explicit-cached", "implicit"), ("explicit", "explicit-cached")):
        jobs.append(("default", (first, second)))

    def dispatch(j):
        if j[0] == "default":
            return default_store_job(j[1])
        if j[0] == "takeover":
            from checks import c04

            return c04.moved_internal_job(j[1], prop="C16")
        return {"case": case_job, "views": views_job, "open": open_job, "repoint": repoint_job, "partial": partial_job}[j[0]](j[1])

    results = core.fork_map(dispatch, jobs, timeout=600)
    for j, r in zip(jobs, results):
        if isinstance(r, core.JobFailed):
            rep.inconclusive.append("job %r: %r" % (j, r))
            continue
        rep.merge(r)
        rep.bump("jobs", j[0])
    rep.sample({"configuration": jobs[0][1], "process_A_actions": ["keep1", "keep2", "load", "load", "keep1", "chdir", "load", "load", "keep1", "keep2"]})
    rep.assumptions = ["directories are on one local file system that supports symbolic links"]
    return rep


def replay(payload):
    rep = core.Report("C16")
    c = payload["case"]
    if c.get("default_store"):
        rep.merge(default_store_job((c["first"], c["second"])))
    elif c.get("moved_internal"):
        from checks import c04

        rep.merge(c04.moved_internal_job((c["program"], c["cache"], c["idx"]), prop="C16"))
    elif c.get("partial"):
        rep.merge(partial_job((c["cache_objects"], c["which"])))
    elif c.get("repoint"):
        rep.merge(repoint_job((c["cache_objects"], c["relative"])))
    elif c.get("open"):
        rep.merge(open_job((c["internal_form"], c["cache_objects"])))
    elif c.get("views"):
        rep.merge(views_job((c["internal_form"], c["cache_objects"], c["same_process"])))
    else:
        rep.merge(case_job((c["internal_form"], c["data_form"], c["cache_objects"])))
    return rep
