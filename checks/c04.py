"""
C04 - a committed path serves the value of the latest evaluation that kept it.

Monitor: after every evaluation, dds.load(p) for every path ever kept in the history - in the
evaluating process and in a fresh process - and the bytes of <data_dir>/<p> for str results.
Oracle: model path -> value, updated only with the paths the evaluation kept (reference run).
"""
from vp import core, progs, e1run


def build_cases(tier, seed):
    rng = core.rng_for(seed, "c04")
    cases = []
    n_rand = 400 if tier == "quick" else 3000
    for i in range(n_rand):
        cases.append(progs.random_case(rng, i, rng.choice(["local", "local_lru", "memory", "dbfs"])))
    cases += [c for c in progs.matrix_cases("quick", seed, stores=("local", "dbfs")) if c["name"].startswith(("const@", "lit:", "entrydata", "entry:"))]
    cases += progs.path_shape_cases(tier, seed)
    return cases


def interleaved_job(arg):
    """Session A evaluates v0, another process B evaluates an edited v1 on the same store, then A (same
    process, same store object) evaluates its unchanged v0 again: every path must serve v0's values again."""
    import os
    import pickle

    from vp import gen
    from vp.worker import run_segment

    p0, store, idx = arg
    rep = core.Report("C04")
    rep.evaluations = 1
    p1 = p0
    for fid in gen.reach(p0, p0["entry"]):
        p1, _ = gen.e_set_const(p1, fid, 7000)
    f = p0["fns"][p0["entry"]]
    ent = {"style": "eval", "module": gen.modname(p0, f["module"]), "func": f["name"], "args_src": "()"}
    paths = sorted(gen.kept_nodes(p0))
    case = {"interleaved": True, "program": p0, "store": store, "idx": idx}
    with core.Scratch("vp_c04i_") as td:
        root_a, root_b, sdir = os.path.join(td, "a"), os.path.join(td, "b"), os.path.join(td, "store")
        for d in (root_a, root_b, sdir):
            os.makedirs(d)
        side = {"mode": "impl", "root": root_b, "accept": [p0["pkg"]], "store": {"kind": store, "dir": sdir},
                "steps": [{"write": gen.render(p1), "how": "import", "modules": gen.import_order(p1), "entry": ent, "post_loads": paths}]}
        seg = {"mode": "impl", "root": root_a, "accept": [p0["pkg"]], "store": {"kind": store, "dir": sdir},
               "steps": [{"write": gen.render(p0), "how": "import", "modules": gen.import_order(p0), "entry": ent, "post_loads": paths},
                         {"how": "none", "side": side, "entry": ent, "post_loads": paths}]}
        a = core.fork_call(run_segment, seg, timeout=900)
        ref = core.fork_call(run_segment, {"mode": "ref", "root": root_a, "accept": [], "steps": [{"write": gen.render(p0), "how": "import", "modules": gen.import_order(p0), "entry": ent}]}, timeout=300)
        fresh = core.fork_call(run_segment, dict(seg, steps=[{"how": "none", "post_loads": paths}]), timeout=300)
    if any(isinstance(x, core.JobFailed) for x in (a, ref, fresh)):
        rep.inconclusive.append("interleaved worker failed: %r" % ([x for x in (a, ref, fresh) if isinstance(x, core.JobFailed)][:1],))
        return rep
    s1 = a["steps"][1]
    if "side_error" in s1 or "side" not in s1 or s1["side"]["steps"][0].get("result", ("exc",))[0] != "ok":
        rep.inconclusive.append("side process failed: %s" % (s1.get("side_error") or s1.get("side", {}).get("steps", [{}])[0].get("result"),))
        return rep
    model = dict((pth, pickle.loads(v)) for pth, v in ref["steps"][0]["kept"])
    rr = ref["steps"][0]["result"]
    for si in (0, 1):
        r = a["steps"][si]["result"]
        if r[0] != "ok" or rr[0] != "ok" or pickle.loads(r[1]) != pickle.loads(rr[1]):
            rep.violate("interleaved sessions on %s: session A step %d returned %s" % (store, si, r[2][:100] if r[0] == "ok" else r[1:3]), case, mechanism="interleaved-wrong-value")
            return rep
    side_loads = s1["side"]["steps"][0]["loads"]
    moved = [pth for pth in paths if side_loads[pth][0] == "ok" and pickle.loads(side_loads[pth][1]) != model.get(pth)]
    rep.count("interleaved_paths_moved_by_other_process", len(moved))
    for label, loads in (("session A", s1["loads"]), ("a fresh process", fresh["steps"][0]["loads"])):
        for pth, val in model.items():
            rep.count("path_loads_checked")
            lv = loads.get(pth)
            if lv is None or lv[0] != "ok" or pickle.loads(lv[1]) != val:
                rep.violate("interleaved sessions on %s: after session A re-evaluated its unchanged pipeline, load(%s) in %s gives %s, the keep returned %r" % (store, pth, label, (lv[2] if lv and lv[0] == "ok" else lv and lv[1:3]), val),
                            case, mechanism="interleaved-path-not-recommitted")
                return rep
    if moved:
        rep.nontriv(("c04i", gen.h(gen.render(p0)), store))
    return rep


def moved_internal_job(arg):
    """One data directory used with two internal directories in turn (the blob store was moved, or a fresh cache
    directory is used): after the evaluation with the second one every path resolves through it - also once the first
    internal directory is gone."""
    import os
    import pickle
    import shutil

    from vp import gen
    from vp.worker import run_segment

    p0, cache, idx = arg
    rep = core.Report("C04")
    rep.evaluations = 1
    f = p0["fns"][p0["entry"]]
    ent = {"style": "eval", "module": gen.modname(p0, f["module"]), "func": f["name"], "args_src": "()"}
    paths = sorted(gen.kept_nodes(p0))
    case = {"moved_internal": True, "program": p0, "cache": cache, "idx": idx}
    with core.Scratch("vp_c04m_") as td:
        root, ia, ib, d = (os.path.join(td, x) for x in ("code", "internal_a", "internal_b", "data"))
        os.makedirs(root)

        def seg(internal, steps):
            return {"mode": "impl", "root": root, "accept": [p0["pkg"]], "store": {"kind": "local", "dir": td},
                    "store_via_api": {"args": ["local"], "kwargs": {"internal_dir": internal, "data_dir": d, "cache_objects": cache}}, "steps": steps}

        ev = {"write": gen.render(p0), "how": "import", "modules": gen.import_order(p0), "entry": ent, "post_loads": paths}
        a = core.fork_call(run_segment, seg(ia, [ev]), timeout=600)
        b = core.fork_call(run_segment, seg(ib, [ev]), timeout=600)
        shutil.rmtree(ia, ignore_errors=True)
        c = core.fork_call(run_segment, seg(ib, [{"how": "none", "post_loads": paths}]), timeout=300)
        ref = core.fork_call(run_segment, {"mode": "ref", "root": root, "accept": [], "steps": [dict(ev)]}, timeout=300)
        raw = {}
        for pth in paths:
            fp = os.path.join(d, pth.lstrip("/"))
            raw[pth] = (os.path.realpath(fp), os.path.exists(fp))
    if any(isinstance(x, core.JobFailed) for x in (a, b, c, ref)):
        rep.inconclusive.append("moved-internal worker failed")
        return rep
    for x in a["steps"] + b["steps"] + c["steps"] + ref["steps"]:
        if "setup_error" in x:
            rep.inconclusive.append("setup error: %s" % x["setup_error"][-300:])
            return rep
    model = dict((pth, pickle.loads(v)) for pth, v in ref["steps"][0]["kept"])
    rr = ref["steps"][0]["result"]
    for label, o in (("first internal directory", a["steps"][0]), ("second internal directory", b["steps"][0])):
        r = o["result"]
        if r[0] != "ok" or rr[0] != "ok" or pickle.loads(r[1]) != pickle.loads(rr[1]):
            rep.violate("evaluation with the %s returned %s" % (label, r[2][:100] if r[0] == "ok" else r[1:3]), case, mechanism="moved-internal-wrong-value")
            return rep
    for label, loads in (("right after the evaluation with the second internal directory", b["steps"][0]["loads"]), ("after the first internal directory was removed", c["steps"][0]["loads"])):
        for pth, val in model.items():
            rep.count("path_loads_checked")
            lv = loads.get(pth)
            if lv is None or lv[0] != "ok" or pickle.loads(lv[1]) != val:
                rep.violate("one data directory, two internal directories in turn (cache_objects=%r): %s load(%s) gives %s, the keep returned %r" % (cache, label, pth, (lv[2][:80] if lv and lv[0] == "ok" else lv and lv[1:3]), val),
                            case, mechanism="moved-internal-path-not-recommitted")
                return rep
    for pth, (target, exists) in raw.items():
        rep.count("raw_files_checked")
        if pth in model and not (exists and (target + "/").startswith(ib + "/")):
            rep.violate("one data directory, two internal directories in turn: the entry of %s under the data directory leads to %s, not into the internal directory of the latest evaluation" % (pth, target),
                        case, mechanism="moved-internal-path-not-recommitted")
            return rep
    rep.nontriv(("c04m", gen.h(gen.render(p0)), repr(cache)))
    return rep


def run(tier, seed):
    rep = core.Report("C04")
    rep.rule = (
        "random programs (paths of 1-4 segments with shared directories, literal / module-variable / pathlib paths, tuple and str results) with 6-10 step edit histories on memory, local, local+cache and "
        "DBFS(fake); edit matrix subset; path-shape programs (concatenation-ambiguous names, shared directories, 1-4 segments, re-keep with changed code, paths dropped by an edit). After each step every path kept "
        "so far is loaded in the same and in a fresh process; one data directory used with two internal directories in turn; interleaved sessions (A evaluates, another process evaluates an edited version, A evaluates again) "
        " and, for str results on file stores, read from the data directory. distinct_nontrivial = distinct cases with a store hit."
    )
    cases = build_cases(tier, seed)
    e1run.run_cases(cases, "C04", ["paths"], rep)
    # interleaved sessions of two processes on one store
    rng = core.rng_for(seed, "c04i")
    progsi = [progs.base_program("c4i0"), progs.base_program("c4i1", layout="one", entry_data=True)]
    while len(progsi) < (6 if tier == "quick" else 40):
        q = progs.random_program(rng, "c4i%d" % len(progsi))
        from vp import gen as _g

        if len(_g.kept_nodes(q)) >= 2:
            progsi.append(q)
    jobs = [(q, st, i) for i, q in enumerate(progsi) for st in ("local", "local_lru", "dbfs", "local_api_cache_all")]
    for j, r in zip(jobs, core.fork_map(interleaved_job, jobs, timeout=1800)):
        if isinstance(r, core.JobFailed):
            rep.inconclusive.append("interleaved job: %r" % (r,))
        else:
            rep.merge(r)
    mjobs = [(q, c, i) for i, q in enumerate(progsi[: (4 if tier == "quick" else 16)]) for c in (None, 3)]
    for j, r in zip(mjobs, core.fork_map(moved_internal_job, mjobs, timeout=1800)):
        if isinstance(r, core.JobFailed):
            rep.inconclusive.append("moved-internal job: %r" % (r,))
        else:
            rep.merge(r)
    rep.sample({"case": cases[0]["name"], "history": cases[0]["history"][:5]})
    if rep.counters.get("path_loads_checked", 0) == 0:
        rep.inconclusive.append("no path load was observed")
    rep.assumptions = ["fake dbutils for DBFS", "memory store paths only within one process"]
    return rep


def replay(payload):
    from vp import e1

    rep = core.Report("C04")
    if payload["case"].get("moved_internal"):
        c = payload["case"]
        rep.merge(moved_internal_job((c["program"], c["cache"], c["idx"])))
        return rep
    if payload["case"].get("interleaved"):
        c = payload["case"]
        rep.merge(interleaved_job((c["program"], c["store"], c["idx"])))
        return rep
    case = payload["case"]["case"]
    obs = e1.run_case(case)
    if obs["failed"]:
        rep.inconclusive.append(obs["failed"])
        return rep
    e1.oracle_paths(case, obs, rep)
    return rep
