"""
C04 - a committed path serves the value of the latest evaluation that kept it.

Monitor: after every evaluation, dds.load(p) for every path ever kept in the history - in the
evaluating process and in a fresh process - and the bytes of <data_dir>/<p> for str results.
Oracle: model path -> value, updated only with the paths the evaluation kept (reference run).
"""
from vp import core, progs, e1run


def build_cases(tier, seed):
    rng = core.rng_for(seed, "c04")
    cases = []
    n_rand = 400 if tier == "quick" else 3000
    for i in range(n_rand):
        cases.append(progs.random_case(rng, i, rng.choice(["local", "local_lru", "memory", "dbfs"])))
    cases += [c for c in progs.matrix_cases("quick", seed, stores=("local", "dbfs")) if c["name"].startswith(("const@", "lit:", "entrydata", "entry:"))]
    cases += progs.path_shape_cases(tier, seed)
    return cases


def run(tier, seed):
    rep = core.Report("C04")
    rep.rule = (
        "random programs (paths of 1-4 segments with shared directories, literal / module-variable / pathlib paths, tuple and str results) with 6-10 step edit histories on memory, local, local+cache and "
        "DBFS(fake); edit matrix subset; path-shape programs (concatenation-ambiguous names, shared directories, 1-4 segments, re-keep with changed code, paths dropped by an edit). After each step every path kept "
        "so far is loaded in the same and in a fresh process and, for str results on file stores, read from the data directory. distinct_nontrivial = distinct cases with a store hit."
    )
    cases = build_cases(tier, seed)
    e1run.run_cases(cases, "C04", ["paths"], rep)
    rep.sample({"case": cases[0]["name"], "history": cases[0]["history"][:5]})
    if rep.counters.get("path_loads_checked", 0) == 0:
        rep.inconclusive.append("no path load was observed")
    rep.assumptions = ["fake dbutils for DBFS", "memory store paths only within one process"]
    return rep


def replay(payload):
    from vp import e1

    rep = core.Report("C04")
    case = payload["case"]["case"]
    obs = e1.run_case(case)
    if obs["failed"]:
        rep.inconclusive.append(obs["failed"])
        return rep
    e1.oracle_paths(case, obs, rep)
    return rep
