"""
C04 - a committed path serves the value of the latest evaluation that kept it.

Monitor: after every evaluation, dds.load(p) for every path ever kept in the history - in the
evaluating process and in a fresh process - and the bytes of <data_dir>/<p> for str results.
Oracle: model path -> value, updated only with the paths the evaluation kept (reference run).
"""
from vp import core, progs, e1run


def build_cases(tier, seed):
    rng = core.rng_for(seed, "c04")
    cases = []
    n_rand = 400 if tier == "quick" else 3000
    for i in range(n_rand):
        cases.append(progs.random_case(rng, i, rng.choice(["local", "local_lru", "memory", "dbfs"])))
    cases += [c for c in progs.matrix_cases("quick", seed, stores=("local", "dbfs")) if c["name"].startswith(("const@", "lit:", "entrydata", "entry:"))]
    cases += progs.path_shape_cases(tier, seed)
    return cases


def interleaved_job(arg):
    """Session A evaluates v0, another process B evaluates an edited v1 on the same store, then A (same
    process, same store object) evaluates its unchanged v0 again: every path must serve v0's values again."""
    import os
    import pickle

    from vp import gen
    from vp.worker import run_segment

    p0, store, idx = arg
    rep = core.Report("C04")
    rep.evaluations = 1
    p1 = p0
    for fid in gen.reach(p0, p0["entry"]):
        p1, _ = gen.e_set_const(p1, fid, 7000)
    f = p0["fns"][p0["entry"]]
    ent = {"style": "eval", "module": gen.modname(p0, f["module"]), "func": f["name"], "args_src": "()"}
    paths = sorted(gen.kept_nodes(p0))
    case = {"interleaved": True, "program": p0, "store": store, "idx": idx}
    with core.Scratch("vp_c04i_") as td:
        root_a, root_b, sdir = os.path.join(td, "a"), os.path.join(td, "b"), os.path.join(td, "store")
        for d in (root_a, root_b, sdir):
            os.makedirs(d)
        side = {"mode": "impl", "root": root_b, "accept": [p0["pkg"]], "store": {"kind": store, "dir": sdir},
                "steps": [{"write": gen.render(p1), "how": "import", "modules": gen.import_order(p1), "entry": ent, "post_loads": paths}]}
        seg = {"mode": "impl", "root": root_a, "accept": [p0["pkg"]], "store": {"kind": store, "dir": sdir},
               "steps": [{"write": gen.render(p0), "how": "import", "modules": gen.import_order(p0), "entry": ent, "post_loads": paths},
                         {"how": "none", "side": side, "entry": ent, "post_loads": paths}]}
        a = core.fork_call(run_segment, seg, timeout=900)
        ref = core.fork_call(run_segment, {"mode": "ref", "root": root_a, "accept": [], "steps": [{"write": gen.render(p0), "how": "import", "modules": gen.import_order(p0), "entry": ent}]}, timeout=300)
        fresh = core.fork_call(run_segment, dict(seg, steps=[{"how": "none", "post_loads": paths}]), timeout=300)
    if any(isinstance(x, core.JobFailed) for x in (a, ref, fresh)):
        rep.inconclusive.append("interleaved worker failed: %r" % ([x for x in (a, ref, fresh) if isinstance(x, core.JobFailed)][:1],))
        return rep
    s1 = a["steps"][1]
    if "side_error" in s1 or "side" not in s1 or s1["side"]["steps"][0].get("result", ("exc",))[0] != "ok":
        rep.inconclusive.append("side process failed: %s" % (s1.get("side_error") or s1.get("side", {}).get("steps", [{}])[0].get("result"),))
        return rep
    model = dict((pth, pickle.loads(v)) for pth, v in ref["steps"][0]["kept"])
    rr = ref["steps"][0]["result"]
    for si in (0, 1):
        r = a["steps"][si]["result"]
        if r[0] != "ok" or rr[0] != "ok" or pickle.loads(r[1]) != pickle.loads(rr[1]):
            rep.violate("interleaved sessions on %s: session A step %d returned %s" % (store, si, r[2][:100] if r[0] == "ok" else r[1:3]), case, mechanism="interleaved-wrong-value")
            return rep
    side_loads = s1["side"]["steps"][0]["loads"]
    moved = [pth for pth in paths if side_loads[pth][0] == "ok" and pickle.loads(side_loads[pth][1]) != model.get(pth)]
    rep.count("interleaved_paths_moved_by_other_process", len(moved))
    for label, loads in (("session A", s1["loads"]), ("a fresh process", fresh["steps"][0]["loads"])):
        for pth, val in model.items():
            rep.count("path_loads_checked")
            lv = loads.get(pth)
            if lv is None or lv[0] != "ok" or pickle.loads(lv[1]) != val:
                rep.violate("interleaved sessions on %s: after session A re-evaluated its unchanged pipeline, load(%s) in %s gives %s, the keep returned %r" % (store, pth, label, (lv[2] if lv and lv[0] == "ok" else lv and lv[1:3]), val),
                            case, mechanism="interleaved-path-not-recommitted")
                return rep
    if moved:
        rep.nontriv(("c04i", gen.h(gen.render(p0)), store))
    return rep


def _frame_worker(arg):
    import os
    import pickle

    import dds
    from checks import scen
    from vp import vlog

    store, root, tags, phase = arg
    dds.accept_module("checks")
    if store == "dbfs":
        from vp.fakedbutils import FakeDbutils

        dds.set_store("dbfs", internal_dir="dbfs:/internal", data_dir="dbfs:/data", dbutils=FakeDbutils(root))
    else:
        dds.set_store("local", internal_dir=os.path.join(root, "internal"), data_dir=os.path.join(root, "data"), cache_objects=(3 if store == "local_lru" else None))
    out = {}
    for t in tags:
        vlog.clear()
        try:
            if phase == "keep":
                v = dds.keep("/c04f/%s" % t, scen.frame_of, t)
                v2 = dds.keep("/c04f/%s" % t, scen.frame_of, t)  # served from the store
                out[t] = ("ok", pickle.dumps(v), pickle.dumps(v2), pickle.dumps(dds.load("/c04f/%s" % t)), vlog.snapshot())
            else:
                out[t] = ("ok", pickle.dumps(dds.load("/c04f/%s" % t)))
        except BaseException as e:  # noqa
            out[t] = ("exc", "%s: %s" % (type(e).__name__, str(e)[:200]))
    return out


def frame_job(arg, prop="C04"):
    """Kept functions that return tables (default / selected / named index, spreadsheet-style column names): the second
    keep, dds.load here and in another process, and the parquet file under the data directory all give the kept table."""
    import os
    import pickle

    from vp import storemodel as SM

    store, tags = arg
    rep = core.Report(prop)
    rep.evaluations = len(tags)
    case = {"frames": True, "store": store, "tags": tags}
    with core.Scratch("vp_c04f_") as td:
        a = core.fork_call(_frame_worker, (store, td, tags, "keep"), timeout=300)
        b = core.fork_call(_frame_worker, (store, td, tags, "load"), timeout=300)
        files = {}
        if store != "dbfs":
            import pandas as pd

            for t in tags:
                fp = os.path.join(td, "data", "c04f", t)
                try:
                    files[t] = pd.read_parquet(fp)
                except BaseException as e:  # noqa
                    files[t] = "%s: %s" % (type(e).__name__, str(e)[:100])
    if isinstance(a, core.JobFailed) or isinstance(b, core.JobFailed):
        rep.inconclusive.append("frame worker failed")
        return rep
    for t in tags:
        want = SM.result_value(t)
        if a[t][0] != "ok":
            rep.violate("store %s: keep of a function returning the table %s raised %s" % (store, t, a[t][1]), case, mechanism="frame-keep-raised")
            continue
        obs = [("the keep that computed it", pickle.loads(a[t][1])), ("the second keep (served)", pickle.loads(a[t][2])), ("dds.load in the same process", pickle.loads(a[t][3]))]
        obs.append(("dds.load in another process", pickle.loads(b[t][1]) if b[t][0] == "ok" else b[t][1]))
        if t in files:
            obs.append(("the file under the data directory", files[t]))
        for label, got in obs:
            rep.count("path_loads_checked")
            if not SM.values_equal(got, want):
                rep.violate("store %s: table %s: %s gives %s, the function returned %s" % (store, t, label, repr(got)[:160].replace("\n", " / "), repr(want)[:120].replace("\n", " / ")), case, mechanism="frame-not-served-as-kept")
                break
    rep.nontriv(("c04frames", store, repr(tags)))
    return rep


def moved_internal_job(arg, prop="C04"):
    """One data directory used with two internal directories in turn (the blob store was moved, or a fresh cache
    directory is used): after the evaluation with the second one every path resolves through it - also once the first
    internal directory is gone."""
    import os
    import pickle
    import shutil

    from vp import gen
    from vp.worker import run_segment

    p0, cache, idx = arg
    rep = core.Report(prop)
    rep.evaluations = 1
    f = p0["fns"][p0["entry"]]
    ent = {"style": "eval", "module": gen.modname(p0, f["module"]), "func": f["name"], "args_src": "()"}
    paths = sorted(gen.kept_nodes(p0))
    case = {"moved_internal": True, "program": p0, "cache": cache, "idx": idx}
    with core.Scratch("vp_c04m_") as td:
        root, ia, ib, d = (os.path.join(td, x) for x in ("code", "internal_a", "internal_b", "data"))
        os.makedirs(root)

        def seg(internal, steps):
            return {"mode": "impl", "root": root, "accept": [p0["pkg"]], "store": {"kind": "local", "dir": td},
                    "store_via_api": {"args": ["local"], "kwargs": {"internal_dir": internal, "data_dir": d, "cache_objects": cache}}, "steps": steps}

        ev = {"write": gen.render(p0), "how": "import", "modules": gen.import_order(p0), "entry": ent, "post_loads": paths}
        a = core.fork_call(run_segment, seg(ia, [ev]), timeout=600)
        b = core.fork_call(run_segment, seg(ib, [ev]), timeout=600)
        shutil.rmtree(ia, ignore_errors=True)
        c = core.fork_call(run_segment, seg(ib, [{"how": "none", "post_loads": paths}]), timeout=300)
        ref = core.fork_call(run_segment, {"mode": "ref", "root": root, "accept": [], "steps": [dict(ev)]}, timeout=300)
        raw = {}
        for pth in paths:
            fp = os.path.join(d, pth.lstrip("/"))
            raw[pth] = (os.path.realpath(fp), os.path.exists(fp))
    if any(isinstance(x, core.JobFailed) for x in (a, b, c, ref)):
        rep.inconclusive.append("moved-internal worker failed")
        return rep
    for x in a["steps"] + b["steps"] + c["steps"] + ref["steps"]:
        if "setup_error" in x:
            rep.inconclusive.append("setup error: %s" % x["setup_error"][-300:])
            return rep
    model = dict((pth, pickle.loads(v)) for pth, v in ref["steps"][0]["kept"])
    rr = ref["steps"][0]["result"]
    for label, o in (("first internal directory", a["steps"][0]), ("second internal directory", b["steps"][0])):
        r = o["result"]
        if r[0] != "ok" or rr[0] != "ok" or pickle.loads(r[1]) != pickle.loads(rr[1]):
            rep.violate("evaluation with the %s returned %s" % (label, r[2][:100] if r[0] == "ok" else r[1:3]), case, mechanism="moved-internal-wrong-value")
            return rep
    for label, loads in (("right after the evaluation with the second internal directory", b["steps"][0]["loads"]), ("after the first internal directory was removed", c["steps"][0]["loads"])):
        for pth, val in model.items():
            rep.count("path_loads_checked")
            lv = loads.get(pth)
            if lv is None or lv[0] != "ok" or pickle.loads(lv[1]) != val:
                rep.violate("one data directory, two internal directories in turn (cache_objects=%r): %s load(%s) gives %s, the keep returned %r" % (cache, label, pth, (lv[2][:80] if lv and lv[0] == "ok" else lv and lv[1:3]), val),
                            case, mechanism="moved-internal-path-not-recommitted")
                return rep
    for pth, (target, exists) in raw.items():
        rep.count("raw_files_checked")
        if pth in model and not (exists and (target + "/").startswith(ib + "/")):
            rep.violate("one data directory, two internal directories in turn: the entry of %s under the data directory leads to %s, not into the internal directory of the latest evaluation" % (pth, target),
                        case, mechanism="moved-internal-path-not-recommitted")
            return rep
    rep.nontriv(("c04m", gen.h(gen.render(p0)), repr(cache)))
    return rep


def run(tier, seed):
    rep = core.Report("C04")
    rep.rule = (
        "random programs (paths of 1-4 segments with shared directories, literal / module-variable / pathlib paths, tuple and str results) with 6-10 step edit histories on memory, local, local+cache and "
        "DBFS(fake); edit matrix subset; path-shape programs (concatenation-ambiguous names, shared directories, 1-4 segments, re-keep with changed code, paths dropped by an edit). After each step every path kept "
        "so far is loaded in the same and in a fresh process; kept functions returning tables; one data directory used with two internal directories in turn; interleaved sessions (A evaluates, another process evaluates an edited version, A evaluates again) "
        " and, for str results on file stores, read from the data directory. distinct_nontrivial = distinct cases with a store hit."
    )
    cases = build_cases(tier, seed)
    e1run.run_cases(cases, "C04", ["paths"], rep)
    # interleaved sessions of two processes on one store
    rng = core.rng_for(seed, "c04i")
    progsi = [progs.base_program("c4i0"), progs.base_program("c4i1", layout="one", entry_data=True)]
    while len(progsi) < (6 if tier == "quick" else 40):
        q = progs.random_program(rng, "c4i%d" % len(progsi))
        from vp import gen as _g

        if len(_g.kept_nodes(q)) >= 2:
            progsi.append(q)
    jobs = [(q, st, i) for i, q in enumerate(progsi) for st in ("local", "local_lru", "dbfs", "local_api_cache_all")]
    for j, r in zip(jobs, core.fork_map(interleaved_job, jobs, timeout=1800)):
        if isinstance(r, core.JobFailed):
            rep.inconclusive.append("interleaved job: %r" % (r,))
        else:
            rep.merge(r)
    ftags = ["frame0", "frame1", "frame_labels", "frame_named_index", "frame_odd_names"]
    for j, r in zip(("local", "local_lru", "dbfs"), core.fork_map(frame_job, [(st, ftags) for st in ("local", "local_lru", "dbfs")], timeout=900)):
        if isinstance(r, core.JobFailed):
            rep.inconclusive.append("frame job: %r" % (r,))
        else:
            rep.merge(r)
    mjobs = [(q, c, i) for i, q in enumerate(progsi[: (4 if tier == "quick" else 16)]) for c in (None, 3)]
    for j, r in zip(mjobs, core.fork_map(moved_internal_job, mjobs, timeout=1800)):
        if isinstance(r, core.JobFailed):
            rep.inconclusive.append("moved-internal job: %r" % (r,))
        else:
            rep.merge(r)
    # the all-default local store reached by processes that never call set_store and by processes that call set_store("local")
    # without directories: what one keeps, the other loads (the default-store job of C16, reported here as a C04 observation)
    from checks import c16

    djobs = [("implicit", "explicit"), ("explicit", "implicit"), ("implicit", "explicit-cached")]
    for j, r in zip(djobs, core.fork_map(lambda a: c16.default_store_job(a, prop="C04"), djobs, timeout=900)):
        if isinstance(r, core.JobFailed):
            rep.inconclusive.append("default-store job: %r" % (r,))
        else:
            rep.merge(r)
    # workers forked from a process with a DBFS store keep different results at the same time: every path serves its own value
    from checks import c17

    kjobs = [(None, ["str_ascii", "str_nonascii"], "full"), (None, ["nested", "bytes_plain", "obj"], "links_only")]
    for j, r in zip(kjobs, core.fork_map(lambda a: c17.fork_keep_job(a, prop="C04"), kjobs, timeout=900)):
        if isinstance(r, core.JobFailed):
            rep.inconclusive.append("fork-keep job: %r" % (r,))
        else:
            rep.merge(r)
    rep.sample({"case": cases[0]["name"], "history": cases[0]["history"][:5]})
    if rep.counters.get("path_loads_checked", 0) == 0:
        rep.inconclusive.append("no path load was observed")
    rep.assumptions = ["fake dbutils for DBFS", "memory store paths only within one process"]
    return rep


def replay(payload):
    from vp import e1

    rep = core.Report("C04")
    if payload["case"].get("frames"):
        rep.merge(frame_job((payload["case"]["store"], payload["case"]["tags"])))
        return rep
    if payload["case"].get("moved_internal"):
        c = payload["case"]
        rep.merge(moved_internal_job((c["program"], c["cache"], c["idx"])))
        return rep
    if payload["case"].get("fork_keep"):
        from checks import c17

        c = payload["case"]
        rep.merge(c17.fork_keep_job((c["cache"], c["tags"], c.get("commit_type")), prop="C04"))
        return rep
    if payload["case"].get("default_store"):
        from checks import c16

        rep.merge(c16.default_store_job((payload["case"]["first"], payload["case"]["second"]), prop="C04"))
        return rep
    if payload["case"].get("interleaved"):
        c = payload["case"]
        rep.merge(interleaved_job((c["program"], c["store"], c["idx"])))
        return rep
    case = payload["case"]["case"]
    obs = e1.run_case(case)
    if obs["failed"]:
        rep.inconclusive.append(obs["failed"])
        return rep
    e1.oracle_paths(case, obs, rep)
    return rep
