"""
C06 - a process killed at any instant never leaves a store that serves wrong data.

Mechanism (engine E3, crash mode): the scenario action runs the real dds under the file-system shim
(vp/fsshim.py); a dry run counts its M operation boundaries, then for every N in [0, M) a forked
child is terminated with os._exit(137) right before boundary N.  Recovery processes (fresh forks,
no shim) then load the paths committed before the crashed run, evaluate the same pipeline again and
load every path.  Oracle: reference values; loads of previously committed paths give the old or the
new complete value; no exception.
"""
import os
import shutil

from vp import core, fsshim
from checks import scen

E = scen.EXPECTED


def _child(arg):
    """Forked child: run one action, optionally under the shim."""
    action, root, mode, n, report = arg
    import logging

    logging.disable(logging.CRITICAL)
    import dds
    from vp import vlog

    dds.accept_module("checks")
    vlog.clear()
    if mode:
        fsshim.install(root, mode, crash_at=n, crash_report=report)
    try:
        try:
            v = action(root)
            out = ("ok", v)
        except BaseException as e:
            out = ("exc", type(e).__name__, str(e)[:300])
    finally:
        if mode:
            fsshim.uninstall()
    return {"out": out, "trace": fsshim.trace() if mode else None, "log": vlog.snapshot()}


def _child_other_codecs(arg):
    """Forked child: a process in which another codec has priority for the built-in result types (registered by the
    user before the store is used) runs the action and then loads the given paths."""
    action, root, loads = arg
    import logging

    logging.disable(logging.CRITICAL)
    import dds
    from dds.codec import codec_registry
    from checks import c17
    from vp import vlog

    dds.accept_module("checks")
    vlog.clear()
    _, _, GreedyFileCodec, GreedyCodec = c17._mk_codecs()
    codec_registry().add_file_codec(GreedyFileCodec())
    codec_registry().add_codec(GreedyCodec())
    out = {}
    try:
        out["action"] = ("ok", action(root))
    except BaseException as e:
        out["action"] = ("exc", type(e).__name__, str(e)[:300])
    out["loads"] = {}
    for (path, view) in loads:
        try:
            out["loads"][(path, view)] = ("ok", scen.act_load(path, view)(root))
        except BaseException as e:
            out["loads"][(path, view)] = ("exc", type(e).__name__, str(e)[:200])
    return out


def _orphan_blobs(run):
    """Blob files without their metadata file (what a writer killed between the two renames leaves)."""
    n = 0
    for dirpath, dirnames, filenames in os.walk(run):
        if os.path.basename(dirpath) == "blobs":
            for fn in filenames:
                if not fn.startswith(".") and not fn.endswith(".meta") and fn + ".meta" not in filenames:
                    n += 1
    return n


def _real_process_main():
    """Entry point of a real interpreter (used under strace): runs the action of scenario <index> on <root>."""
    import sys

    si, root = int(sys.argv[1]), sys.argv[2]
    core.setup_repo_path()
    r = _child((scenarios()[si]["action"], root, None, None, None))
    sys.exit(0 if r["out"][0] == "ok" else 3)


MUTATING = "mkdir,mkdirat,rename,renameat,renameat2,symlink,symlinkat,unlink,unlinkat,write,pwrite64,writev,ftruncate,link,linkat"


def SC(name, setup, action, before, after, recover_extra=()):
    return {"name": name, "setup": setup, "action": action, "before": before, "after": after, "recover_extra": list(recover_extra)}


def scenarios():
    k, ld = scen.act_keep, scen.act_load
    out = [
        SC("cold-first-keep-text", [], k("/c6/text", "s_text"), {}, {("/c6/text", "data"): E["s_text"]}),
        SC("cold-first-keep-pickle", [], k("/c6/obj", "s_obj"), {}, {("/c6/obj", "data"): E["s_obj"]}),
        SC("cold-first-keep-bytes", [], k("/c6/bytes", "s_bytes"), {}, {("/c6/bytes", "data"): E["s_bytes"]}),
        SC("warm-first-keep-none", [scen.act_create_store()], k("/c6/none", "s_none"), {}, {("/c6/none", "data"): E["s_none"]}),
        SC("rekeep-changed-code", [k("/c6/p", "s_text")], k("/c6/p", "s_text_v2"), {("/c6/p", "data"): [E["s_text"]]}, {("/c6/p", "data"): E["s_text_v2"]}),
        SC("nested-eval-cold", [], scen.act_eval_top(), {},
           {("/shared/dir/leaf_a", "data"): E["n_leaf_a"], ("/shared/dir/leaf_b", "data"): E["n_leaf_b"], ("/shared/dir/mid", "data"): E["n_mid"]}),
        SC("nested-eval-leaf-present", [k("/shared/dir/leaf_a", "n_leaf_a"), k("/other", "s_text")], scen.act_eval_top(),
           {("/shared/dir/leaf_a", "data"): [E["n_leaf_a"]], ("/other", "data"): [E["s_text"]]},
           {("/shared/dir/leaf_a", "data"): E["n_leaf_a"], ("/shared/dir/leaf_b", "data"): E["n_leaf_b"], ("/shared/dir/mid", "data"): E["n_mid"], ("/other", "data"): E["s_text"]}),
        SC("store-creation-explicit", [], scen.act_create_store(), {}, {}, recover_extra=[(k("/c6/text", "s_text"), E["s_text"])]),
        SC("store-creation-default+keep", [], scen.act_default_store_keep("/c6/dflt", "s_text"), {}, {}, recover_extra=[(scen.act_default_store_keep("/c6/dflt", "s_text"), E["s_text"]), (scen.act_default_store_load("/c6/dflt"), E["s_text"])]),
        SC("commit-path-blob-exists", [k("/c6/p1", "s_text")], k("/c6/p2", "s_text"), {("/c6/p1", "data"): [E["s_text"]]}, {("/c6/p1", "data"): E["s_text"], ("/c6/p2", "data"): E["s_text"]}),
        SC("second-data-view", [k("/c6/p", "s_text")], k("/c6/p", "s_text_v2", data="data2"), {("/c6/p", "data"): [E["s_text"]]}, {("/c6/p", "data"): E["s_text"], ("/c6/p", "data2"): E["s_text_v2"]}),
        SC("rekeep-same-code", [k("/c6/p", "s_text")], k("/c6/p", "s_text"), {("/c6/p", "data"): [E["s_text"]]}, {("/c6/p", "data"): E["s_text"]}),
        SC("cold-first-keep-frame-parquet", [], k("/c6/frame", "s_frame"), {}, {("/c6/frame", "data"): scen.frame_value()}),
        SC("rekeep-changed-code-with-object-cache", [k("/c6/p", "s_text", cache=2)], k("/c6/p", "s_text_v2", cache=2), {("/c6/p", "data"): [E["s_text"]]}, {("/c6/p", "data"): E["s_text_v2"]}),
        # internal and data directory on different file systems (a link cannot be renamed from one into the other)
        SC("rekeep-changed-code-data-dir-on-other-file-system", [k("/c6/p", "s_text", data="@otherfs"), k("/c6/deep/q", "s_obj", data="@otherfs")], k("/c6/p", "s_text_v2", data="@otherfs"),
           {("/c6/p", "@otherfs"): [E["s_text"]], ("/c6/deep/q", "@otherfs"): [E["s_obj"]]}, {("/c6/p", "@otherfs"): E["s_text_v2"], ("/c6/deep/q", "@otherfs"): E["s_obj"]}),
        # a store written by an early release (metadata without timestamp) is only read: served results, loads
        SC("served-from-old-format-store", [k("/c6/p", "s_text"), scen.act_old_format_metadata()], k("/c6/p", "s_text"), {("/c6/p", "data"): [E["s_text"]]}, {("/c6/p", "data"): E["s_text"]}),
        SC("nested-eval-served-from-old-format-store", [scen.act_eval_top(), scen.act_old_format_metadata()], scen.act_eval_top(),
           {("/shared/dir/leaf_a", "data"): [E["n_leaf_a"]], ("/shared/dir/mid", "data"): [E["n_mid"]]},
           {("/shared/dir/leaf_a", "data"): E["n_leaf_a"], ("/shared/dir/leaf_b", "data"): E["n_leaf_b"], ("/shared/dir/mid", "data"): E["n_mid"]}),
        SC("load-from-old-format-store", [k("/c6/p", "s_obj"), scen.act_old_format_metadata()], scen.act_load("/c6/p"), {("/c6/p", "data"): [E["s_obj"]]}, {("/c6/p", "data"): E["s_obj"]}),
        # the evaluated function is itself kept under a path and keeps other paths inside (4 links committed by one evaluation)
        SC("nested-keep-top-cold", [], k("/shared/dir/top", "n_top"), {},
           {("/shared/dir/top", "data"): E["n_top"], ("/shared/dir/leaf_a", "data"): E["n_leaf_a"], ("/shared/dir/leaf_b", "data"): E["n_leaf_b"], ("/shared/dir/mid", "data"): E["n_mid"]}),
        SC("nested-keep-top-leaf-present", [k("/shared/dir/leaf_a", "n_leaf_a")], k("/top2", "n_top"), {("/shared/dir/leaf_a", "data"): [E["n_leaf_a"]]},
           {("/top2", "data"): E["n_top"], ("/shared/dir/leaf_a", "data"): E["n_leaf_a"], ("/shared/dir/leaf_b", "data"): E["n_leaf_b"], ("/shared/dir/mid", "data"): E["n_mid"]}),
        # path names with dots, next to a path that is the part before the first dot (what a temporary name is made from)
        SC("keep-dotted-name-next-to-its-stem", [k("/c6/stats", "s_text"), k("/c6/model.v2", "s_bytes")], k("/c6/stats.json", "s_obj"), {("/c6/stats", "data"): [E["s_text"]], ("/c6/model.v2", "data"): [E["s_bytes"]]},
           {("/c6/stats", "data"): E["s_text"], ("/c6/model.v2", "data"): E["s_bytes"], ("/c6/stats.json", "data"): E["s_obj"]}),
        SC("rekeep-dotted-name-next-to-its-stem", [k("/c6/model", "s_text"), k("/c6/model.v2", "s_text")], k("/c6/model.v2", "s_text_v2"), {("/c6/model", "data"): [E["s_text"]], ("/c6/model.v2", "data"): [E["s_text"]]},
           {("/c6/model", "data"): E["s_text"], ("/c6/model.v2", "data"): E["s_text_v2"]}),
        # the killed process and the processes that come after it report the same process id
        SC("commit-path-blob-exists+recycled-pid", [k("/c6/p1", "s_text")], scen.act_with_pid(k("/c6/p2", "s_text"), 7), {("/c6/p1", "data"): [E["s_text"]]}, {("/c6/p1", "data"): E["s_text"], ("/c6/p2", "data"): E["s_text"]}),
        SC("rekeep-changed-code+recycled-pid", [k("/c6/p", "s_text"), k("/c6/p", "s_text_v2")], scen.act_with_pid(k("/c6/p", "s_text"), 7), {("/c6/p", "data"): [E["s_text_v2"]]}, {("/c6/p", "data"): E["s_text"]}),
        # a table of more than a million rows (a writer may split such a table into several files)
        SC("cold-first-keep-large-frame-parquet", [], k("/c6/bigframe", "s_big_frame"), {}, {("/c6/bigframe", "data"): scen.big_frame_value()}),
    ]
    return out


def _copy_store(tmpl, run):
    """Copies the prepared store to the run directory and re-points its absolute links (also in the companion
    directory that a scenario may keep on another file system)."""
    pairs = [(tmpl, run)]
    ct, cr = scen.companion(tmpl), scen.companion(run)
    if ct and os.path.isdir(ct):
        if os.path.lexists(cr):
            shutil.rmtree(cr, ignore_errors=True)
        pairs.append((ct, cr))
    elif cr and os.path.lexists(cr):
        shutil.rmtree(cr, ignore_errors=True)
    for src, dst in pairs:
        shutil.copytree(src, dst, symlinks=True)
    for src, dst in pairs:
        for dirpath, dirnames, filenames in os.walk(dst):
            for n in dirnames + filenames:
                q = os.path.join(dirpath, n)
                if os.path.islink(q):
                    t = os.readlink(q)
                    for a, b in pairs:
                        if t.startswith(a + os.sep):
                            os.remove(q)
                            os.symlink(b + t[len(a):], q)
                            break


def file_class(rel):
    parts = rel.split(os.sep)
    if "blobs" in parts and rel.endswith(".meta"):
        return "meta"
    if "blobs" in parts and len(parts[-1]) >= 32:
        return "blob" if not any(x in parts[-1] for x in (".tmp", "tmp")) else "tmpfile"
    if parts[0].startswith("data"):
        return "path-link" if len(parts) > 1 else "data-dir"
    if parts[-1] == "blobs":
        return "blobs-dir"
    return "other"


def _recover(sc, run, rep, tr_value, bad, rkind, rrel, nontriv_key):
    """R1 loads of previously committed paths, R2 re-evaluation, R3 loads of everything."""
    ok = True
    # R1: paths committed before the crashed run: old or new complete value
    for (path, view), olds in sc["before"].items():
        r = core.fork_call(_child, (scen.act_load(path, view), run, None, None, None), timeout=120)
        rep.count("recovery_loads_of_old_paths")
        allowed = list(olds) + ([sc["after"][(path, view)]] if (path, view) in sc["after"] else [])
        if isinstance(r, core.JobFailed):
            rep.inconclusive.append("recovery load worker failed: %r" % (r,))
        elif r["out"][0] != "ok":
            bad("load(%s) of a path committed before the crash raises %s(%s)" % (path, r["out"][1], r["out"][2][:120]), "old-path-lost:%s:%s" % (rkind, file_class(rrel)))
            ok = False
        elif not any(_eq(r["out"][1], a) for a in allowed):
            bad("load(%s) of a path committed before the crash returns %s" % (path, _short(r["out"][1])), "old-path-wrong-value:%s:%s" % (rkind, file_class(rrel)))
            ok = False
    # optional second crash during recovery
    # R2: evaluate the same pipeline again
    expected_action_value = tr_value
    r = core.fork_call(_child, (sc["action"], run, None, None, None), timeout=120)
    rep.count("recovery_evaluations")
    if isinstance(r, core.JobFailed):
        rep.inconclusive.append("recovery worker failed: %r" % (r,))
    elif r["out"][0] != "ok":
        bad("re-evaluation after the crash raises %s(%s)" % (r["out"][1], r["out"][2][:160]), "recovery-raises:%s:%s:%s" % (r["out"][1], rkind, file_class(rrel)))
        ok = False
    elif not _eq(r["out"][1], expected_action_value):
        bad("re-evaluation after the crash returns %s instead of %s" % (_short(r["out"][1]), _short(expected_action_value)), "recovery-wrong-value:%s:%s" % (rkind, file_class(rrel)))
        ok = False
    for (act, exp) in sc["recover_extra"]:
        r = core.fork_call(_child, (act, run, None, None, None), timeout=120)
        rep.count("recovery_evaluations")
        if isinstance(r, core.JobFailed):
            rep.inconclusive.append("recovery worker failed: %r" % (r,))
        elif r["out"][0] != "ok":
            bad("%s after the crash raises %s(%s)" % (act.__name__, r["out"][1], r["out"][2][:160]), "recovery-raises:%s:%s:%s" % (r["out"][1], rkind, file_class(rrel)))
            ok = False
        elif not _eq(r["out"][1], exp):
            bad("%s after the crash returns %s" % (act.__name__, _short(r["out"][1])), "recovery-wrong-value:%s:%s" % (rkind, file_class(rrel)))
            ok = False
    # R3: every path serves the new value
    if ok:
        for (path, view), exp in sc["after"].items():
            r = core.fork_call(_child, (scen.act_load(path, view), run, None, None, None), timeout=120)
            rep.count("recovery_loads_after")
            if isinstance(r, core.JobFailed):
                rep.inconclusive.append("recovery load worker failed: %r" % (r,))
            elif r["out"][0] != "ok" or not _eq(r["out"][1], exp):
                bad("after recovery load(%s) gives %s" % (path, _short(r["out"][1]) if r["out"][0] == "ok" else "%s(%s)" % (r["out"][1], r["out"][2][:100])), "post-recovery-load-wrong:%s:%s" % (rkind, file_class(rrel)))
        rep.nontriv(nontriv_key)
    return ok


def scenario_job(arg):
    si, points, second_crash = arg
    sc = scenarios()[si]
    rep = core.Report("C06", level="fault_enumeration")
    with core.Scratch("vp_c06_") as td:
        tmpl = os.path.join(td, "template")
        os.makedirs(tmpl)
        for a in sc["setup"]:
            r = core.fork_call(_child, (a, tmpl, None, None, None), timeout=120)
            if isinstance(r, core.JobFailed) or r["out"][0] != "ok":
                rep.inconclusive.append("%s: setup action failed: %r" % (sc["name"], r))
                return rep
        # dry run under the shim in trace mode
        # the scenario root path is identical for every run (the store holds absolute link targets)
        run = os.path.join(td, "run")
        _copy_store(tmpl, run)
        tr = core.fork_call(_child, (sc["action"], run, "trace", None, None), timeout=120)
        if isinstance(tr, core.JobFailed):
            rep.inconclusive.append("%s: trace run failed: %r" % (sc["name"], tr))
            return rep
        trace = tr["trace"]
        M = len(trace)
        rep.extra.setdefault("operations_per_scenario", {})[sc["name"]] = M
        rep.extra.setdefault("trace_samples", {})[sc["name"]] = ["%s %s" % (k, r if len(r) < 60 else r[:25] + ".." + r[-20:]) for k, r in trace[:60]]
        if tr["out"][0] != "ok":
            rep.violate("%s: action fails even without a crash: %r" % (sc["name"], tr["out"]), {"scenario": sc["name"]}, mechanism="action-fails-under-shim")
            return rep
        shutil.rmtree(run)
        todo = range(M) if points is None else [n for n in points if n < M]
        for n in todo:
            _copy_store(tmpl, run)
            report = os.path.join(td, "crash_report")
            if os.path.exists(report):
                os.remove(report)
            cr = core.fork_call(_child, (sc["action"], run, "crash", n, report), timeout=120)
            rep.evaluations += 1
            if not os.path.exists(report):
                # the run did not reach boundary n (non-deterministic trace): nothing crashed
                rep.count("crash_point_not_reached")
                shutil.rmtree(run)
                continue
            kind, rel = trace[n]
            with open(report) as f:
                rn, rkind, rrel = f.read().rstrip("\n").split("\t")
            rep.count("crash_points")
            rep.bump("crash_op_kind", rkind)
            rep.bump("crash_file_class", file_class(rrel))
            from vp import storemodel as SM

            rep.extra.setdefault("_states", set()).add(SM.tree_hash(run))
            feats = {"scenario": sc["name"], "crash_index": n, "op": rkind, "file": file_class(rrel)}
            case = {"scenario_index": si, "scenario": sc["name"], "crash_index": n, "op": rkind, "path": rrel}

            def bad(what, mech):
                rep.violate("%s, killed before op %d (%s %s): %s" % (sc["name"], n, rkind, rrel if len(rrel) < 70 else rrel[:30] + ".." + rrel[-24:], what), case, mechanism=mech, features=feats)

            if _orphan_blobs(run) and not sc["recover_extra"] and not any(v == "@otherfs" for (_, v) in sc["after"]):
                # the recovering process may select other codecs than the killed one: blob and metadata must still agree
                saved = os.path.join(td, "saved")
                shutil.copytree(run, saved, symlinks=True)
                g = core.fork_call(_child_other_codecs, (sc["action"], run, sorted(sc["after"])), timeout=120)
                rep.count("recoveries_with_other_codecs")
                if isinstance(g, core.JobFailed):
                    rep.inconclusive.append("recovery (other codecs) worker failed: %r" % (g,))
                elif g["action"][0] != "ok" or not _eq(g["action"][1], tr["out"][1]):
                    bad("re-evaluation by a process with other codecs registered gives %s" % (_short(g["action"][1]) if g["action"][0] == "ok" else "%s(%s)" % g["action"][1:3],), "recovery-other-codecs:%s:%s" % (rkind, file_class(rrel)))
                else:
                    for key_, lv in g["loads"].items():
                        if lv[0] != "ok" or not _eq(lv[1], sc["after"][key_]):
                            bad("after re-evaluation by a process with other codecs registered load(%s) gives %s" % (key_[0], _short(lv[1]) if lv[0] == "ok" else "%s(%s)" % lv[1:3]), "recovery-other-codecs:%s:%s" % (rkind, file_class(rrel)))
                            break
                shutil.rmtree(run, ignore_errors=True)
                os.rename(saved, run)
            _recover(sc, run, rep, tr["out"][1], bad, rkind, rrel, ("c06", sc["name"], n))
            shutil.rmtree(run, ignore_errors=True)
    st = rep.extra.pop("_states", set())
    rep.extra.setdefault("distinct_post_crash_states", {})[sc["name"]] = len(st)
    return rep


def double_crash_job(arg):
    """A second kill during the recovery evaluation (at every boundary of it), then the full recovery."""
    si, stride, offset = arg
    sc = scenarios()[si]
    rep = core.Report("C06", level="fault_enumeration")
    with core.Scratch("vp_c06d_") as td:
        tmpl = os.path.join(td, "template")
        os.makedirs(tmpl)
        for a in sc["setup"]:
            r = core.fork_call(_child, (a, tmpl, None, None, None), timeout=120)
            if isinstance(r, core.JobFailed) or r["out"][0] != "ok":
                rep.inconclusive.append("%s: setup action failed" % sc["name"])
                return rep
        run = os.path.join(td, "run")
        _copy_store(tmpl, run)
        tr = core.fork_call(_child, (sc["action"], run, "trace", None, None), timeout=120)
        shutil.rmtree(run)
        if isinstance(tr, core.JobFailed) or tr["out"][0] != "ok":
            rep.inconclusive.append("%s: trace run failed" % sc["name"])
            return rep
        M = len(tr["trace"])
        report = os.path.join(td, "crash_report")
        crashed = os.path.join(td, "crashed")
        for n in range(offset, M, stride):
            _copy_store(tmpl, run)
            if os.path.exists(report):
                os.remove(report)
            core.fork_call(_child, (sc["action"], run, "crash", n, report), timeout=120)
            if not os.path.exists(report):
                shutil.rmtree(run)
                continue
            kind1 = open(report).read().split("\t")[1]
            # snapshot of the state left by the first kill; the store always lives at `run` (absolute link targets)
            os.rename(run, crashed)
            cr_, cc_ = scen.companion(run), scen.companion(crashed)
            if cc_ and os.path.lexists(cc_):
                shutil.rmtree(cc_, ignore_errors=True)
            if cr_ and os.path.isdir(cr_):
                # the part of the scenario that lives on another file system belongs to the snapshot as well
                os.rename(cr_, cc_)
            _copy_store(crashed, run)
            t2 = core.fork_call(_child, (sc["action"], run, "trace", None, None), timeout=120)
            shutil.rmtree(run)
            if isinstance(t2, core.JobFailed):
                shutil.rmtree(crashed)
                continue
            M2 = len(t2["trace"])
            for n2 in range(M2):
                _copy_store(crashed, run)
                if os.path.exists(report):
                    os.remove(report)
                core.fork_call(_child, (sc["action"], run, "crash", n2, report), timeout=120)
                rep.evaluations += 1
                if not os.path.exists(report):
                    shutil.rmtree(run)
                    continue
                rn, rkind, rrel = open(report).read().rstrip("\n").split("\t")
                rep.count("double_crash_points")
                case = {"scenario_index": si, "scenario": sc["name"], "crash_index": n, "second_crash_index": n2, "op": rkind, "path": rrel, "double": True}

                def bad(what, mech, n=n, n2=n2, rkind=rkind, rrel=rrel, case=case):
                    rep.violate("%s, killed before op %d (%s) and again before op %d of the recovery (%s %s): %s" % (sc["name"], n, kind1, n2, rkind, rrel[-40:], what), case, mechanism="double:" + mech)

                _recover(sc, run, rep, tr["out"][1], bad, rkind, rrel, ("c06d", sc["name"], n, n2))
                shutil.rmtree(run, ignore_errors=True)
            shutil.rmtree(crashed, ignore_errors=True)
    return rep


def strace_job(arg):
    """Real interpreter, real SIGKILL: strace injects SIGKILL on entering the N-th mutating system call."""
    import subprocess
    import sys

    si = arg
    sc = scenarios()[si]
    rep = core.Report("C06", level="fault_enumeration")
    if shutil.which("strace") is None:
        rep.count("strace_unavailable")
        return rep
    with core.Scratch("vp_c06s_") as td:
        tmpl = os.path.join(td, "template")
        os.makedirs(tmpl)
        for a in sc["setup"]:
            r = core.fork_call(_child, (a, tmpl, None, None, None), timeout=120)
            if isinstance(r, core.JobFailed) or r["out"][0] != "ok":
                rep.inconclusive.append("%s: setup action failed" % sc["name"])
                return rep
        run = os.path.join(td, "run")
        _copy_store(tmpl, run)
        tr = core.fork_call(_child, (sc["action"], run, None, None, None), timeout=120)
        shutil.rmtree(run)
        if isinstance(tr, core.JobFailed) or tr["out"][0] != "ok":
            rep.inconclusive.append("%s: plain run failed" % sc["name"])
            return rep
        env = dict(os.environ, PYTHONPATH=core.repo_dir() + os.pathsep + core.VERIF_DIR, PYTHONDONTWRITEBYTECODE="1")
        code = "import sys; sys.path.insert(0, %r); from checks import c06; c06._real_process_main()" % core.VERIF_DIR
        for n in range(1, 400):
            _copy_store(tmpl, run)
            log = os.path.join(td, "strace.log")
            cmd = ["strace", "-f", "-qq", "-o", log, "-e", "trace=" + MUTATING, "-e", "inject=%s:signal=SIGKILL:when=%d" % (MUTATING, n),
                   sys.executable, "-c", code, str(si), run]
            try:
                r = subprocess.run(cmd, env=env, capture_output=True, text=True, timeout=300, cwd="/")
            except subprocess.TimeoutExpired:
                rep.inconclusive.append("%s: strace run timed out" % sc["name"])
                break
            rep.evaluations += 1
            if n == 1 and r.returncode not in (0, 137, -9) and "ptrace" in (r.stderr or "").lower():
                rep.count("strace_unavailable")
                break
            if r.returncode == 0:
                rep.count("strace_runs_completed_without_kill")
                shutil.rmtree(run, ignore_errors=True)
                break
            last = ""
            try:
                lines = [l for l in open(log).read().splitlines() if "(" in l and "+++" not in l]
                last = lines[-1] if lines else ""
            except OSError:
                pass
            rep.count("real_sigkill_points")
            sysc = last.split("(")[0].split()[-1] if last else "?"
            rep.bump("sigkill_syscall", sysc)
            case = {"scenario_index": si, "scenario": sc["name"], "strace_when": n, "syscall": last[:160]}

            def bad(what, mech, n=n, last=last, case=case):
                rep.violate("%s, real SIGKILL on entering mutating syscall #%d (%s): %s" % (sc["name"], n, last[:90], what), case, mechanism="sigkill:" + mech)

            _recover(sc, run, rep, tr["out"][1], bad, sysc, "?", ("c06s", sc["name"], n))
            shutil.rmtree(run, ignore_errors=True)
    return rep


def _eq(a, b):
    from vp import storemodel as SM

    return SM.values_equal(a, b)


def _short(v):
    r = repr(v)
    return r if len(r) < 90 else r[:50] + "..." + r[-30:]


def run(tier, seed):
    rep = core.Report("C06", level="fault_enumeration")
    scs = scenarios()
    rep.rule = (
        "scenarios %r; for each, every file-system operation boundary of the action (stat, lstat, readlink, mkdir, open, each half of each write, close, remove, rename, symlink, listdir; counted by a dry run under "
        "the shim) is a crash point: the process is terminated with os._exit(137) right before it, then fresh processes load the previously committed paths, re-evaluate the pipeline and load everything; where the kill left a blob without metadata a process with other codecs registered recovers as well. "
        "Real SIGKILLs injected by strace on entering each mutating system call of a real interpreter process: three scenarios in the quick tier, all in the thorough tier. Thorough adds a second kill at every boundary of the recovery evaluation (for every 4th first crash point). "
        "distinct_nontrivial = crash points whose recovery was fully observed and correct." % ([s["name"] for s in scs],)
    )
    jobs = [(i, None, False) for i in range(len(scs))]
    results = core.fork_map(scenario_job, jobs, timeout=3000)
    if tier != "thorough":
        # real kills of a real interpreter (no shim: the kernel's and Python's own buffering) on two scenarios, rotating with the seed
        picks = sorted(set([0, (4 + seed) % 14, [i for i, x in enumerate(scs) if x["name"] == "nested-keep-top-cold"][0], [i for i, x in enumerate(scs) if x["name"] == "rekeep-changed-code-data-dir-on-other-file-system"][0]]))
        ex = core.fork_map(strace_job, picks, timeout=1500)
        for i, r in zip(picks, ex):
            if isinstance(r, core.JobFailed):
                rep.inconclusive.append("strace job of %s: %r" % (scs[i]["name"], r))
            else:
                rep.merge(r)
    if tier == "thorough":
        # (the large-frame scenario rebuilds a million-row table in every run: every 24th first crash point there)
        extra = [("double", (i, 24, (seed + i) % 24) if "large-frame" in scs[i]["name"] else (i, 4, (seed + i) % 4)) for i in range(len(scs))] + [("strace", i) for i in range(len(scs))]
        ex = core.fork_map(lambda j: {"double": double_crash_job, "strace": strace_job}[j[0]](j[1]), extra, timeout=3300)
        for j, r in zip(extra, ex):
            if isinstance(r, core.JobFailed):
                rep.inconclusive.append("%s job of %s: %r" % (j[0], scs[j[1] if j[0] == "strace" else j[1][0]]["name"], r))
            else:
                rep.merge(r)
    total_ops = 0
    for j, r in zip(jobs, results):
        if isinstance(r, core.JobFailed):
            rep.inconclusive.append("scenario %s: %r" % (scs[j[0]]["name"], r))
            continue
        for k in ("operations_per_scenario", "trace_samples", "distinct_post_crash_states"):
            rep.extra.setdefault(k, {}).update(r.extra.get(k, {}))
        rep.merge(r)
    rep.exhaustive = True
    ops = rep.extra.get("operations_per_scenario", {})
    rep.sample({"scenario": scs[4]["name"], "operation_trace": rep.extra.get("trace_samples", {}).get(scs[4]["name"], [])[:40]})
    rep.extra["trace_samples"] = dict((k, v[:12]) for k, v in rep.extra.get("trace_samples", {}).items())
    if not rep.counters.get("crash_points"):
        rep.inconclusive.append("no crash point was executed")
    rep.assumptions = ["kill -9 semantics: a completed operation is durable (no power-loss / fsync reordering)",
                       "writes done by native code (parquet) are not split; the codecs exercised here (text, bytes, pickle) write through Python's open"]
    return rep


def replay(payload):
    rep = core.Report("C06", level="fault_enumeration")
    c = payload["case"]
    if c.get("double"):
        rep.merge(double_crash_job((c["scenario_index"], 10 ** 6, c["crash_index"])))
        return rep
    if "strace_when" in c:
        rep.merge(strace_job(c["scenario_index"]))
        return rep
    rep.merge(scenario_job((c["scenario_index"], [c["crash_index"]], False)))
    return rep
