"""
C09 - dds.load always sees the latest kept value and invalidates its readers.

Monitor: value returned by the entry (which embeds what every load returned) vs the dds-free
reference with "latest keep in program order" semantics; execution log of the kept reader;
class / code of the exception for evaluations that read a path before producing it.
"""
import pickle

from vp import core, gen, progs, e1

PLACEMENTS = ["top", "helper", "helper2", "kept", "kept_helper"]
PRODUCERS = ["data", "keep"]
TIMINGS = ["same_before", "same_after", "earlier_eval", "never"]
PATH = "/c9/prod"


def build(pkg, placement, producer, timing, two_modules=False, load_form="assign", via_method=None, builtin_names=False):
    _lf[0] = load_form
    _vm[0] = via_method
    _bn[0] = builtin_names
    return _build(pkg, placement, producer, timing, two_modules)


_lf = ["assign"]
_bn = [False]  # the helpers that contain the load are named like Python builtins (input, filter, format)
_vm = [None]  # None | "producer" | "reader" | "both": that side of the pipeline is reached through a method of a class


def _build(pkg, placement, producer, timing, two_modules=False):
    p = gen.new_program(pkg)
    m0 = gen.add_module(p, "l0")
    m1 = gen.add_module(p, "l1") if two_modules else m0
    if two_modules:
        p["imports"]["l1->l0"] = "from_import"
    pv = gen.add_var(p, m0, "PV", "int")
    pcallee = gen.add_fn(p, m0, "pcallee", const=41)
    if producer == "data":
        prod = gen.add_fn(p, m0, "prod", const=40, data_path=PATH)
    else:
        prod = gen.add_fn(p, m0, "prod", params=[("a", None)], const=40)
    p["fns"][prod]["reads"].append([pv, "bare"])
    p["fns"][prod]["stmts"] = [gen.s_call(pcallee, [])]
    unrelated = gen.add_fn(p, m0, "unrelated_fn", const=49)

    def produce_stmt():
        return gen.s_call(prod, []) if producer == "data" else gen.s_keep(PATH, prod, [gen.lit("1")])

    # the reading side
    if placement == "top":
        reader_body_fn = None
    elif placement == "helper":
        h = gen.add_fn(p, m1, "input" if _bn[0] else "rh", const=51)
        p["fns"][h]["stmts"] = [gen.s_load(PATH, _lf[0])]
    elif placement == "helper2":
        h2 = gen.add_fn(p, m1, "filter" if _bn[0] else "rh2", const=52)
        p["fns"][h2]["stmts"] = [gen.s_load(PATH, _lf[0])]
        h = gen.add_fn(p, m1, "input" if _bn[0] else "rh", const=51)
        p["fns"][h]["stmts"] = [gen.s_call(h2, [])]
    elif placement == "kept":
        h = gen.add_fn(p, m1, "reader", const=53)
        p["fns"][h]["stmts"] = [gen.s_load(PATH, _lf[0])]
    else:
        hh = gen.add_fn(p, m1, "format" if _bn[0] else "rkh", const=54)
        p["fns"][hh]["stmts"] = [gen.s_load(PATH, _lf[0])]
        h = gen.add_fn(p, m1, "reader", const=53)
        p["fns"][h]["stmts"] = [gen.s_call(hh, [])]

    def read_stmt():
        if placement == "top":
            return gen.s_load(PATH, _lf[0])
        if placement in ("kept", "kept_helper"):
            return gen.s_keep("/c9/reader", h, [])
        return gen.s_call(h, [])

    if _vm[0] == "producer_class_by_name":
        # the producing statement sits behind a method of a class that is only handed over by name to an untracked runner
        _ps0 = produce_stmt
        pw0 = gen.add_fn(p, m0, "pwrap", const=45)
        p["fns"][pw0]["stmts"] = [_ps0()]
        kp0 = gen.add_cls(p, m0, "KProd", const=46, calls=pw0)

        def produce_stmt():
            return gen.s_clsref(kp0)
    if _vm[0] in ("producer", "both"):
        # the producing statement sits in a function that only a method of a class calls
        _ps = produce_stmt
        pw = gen.add_fn(p, m0, "pwrap", const=45)
        p["fns"][pw]["stmts"] = [_ps()]
        kp = gen.add_cls(p, m0, "KProd", const=46, calls=pw)

        def produce_stmt():
            return gen.s_method(kp, "1")
    if _vm[0] in ("reader", "both"):
        _rs = read_stmt
        rw = gen.add_fn(p, m1, "rwrap", const=47)
        p["fns"][rw]["stmts"] = [_rs()]
        kr = gen.add_cls(p, m1, "KRead", const=48, calls=rw)

        def read_stmt():
            return gen.s_method(kr, "2")
    if _vm[0] == "reader_thread":
        # the reading side runs in a worker thread started by the evaluated function (the function is handed to the runner by name)
        _rs2 = read_stmt
        rw2 = gen.add_fn(p, m1, "rwrap", const=47)
        p["fns"][rw2]["stmts"] = [_rs2()]

        def read_stmt():
            return gen.s_ref(rw2, runner="thread")
    rmain = gen.add_fn(p, m1, "rmain", const=1)
    f = p["fns"][rmain]
    f["stmts"] = [gen.s_call(unrelated, [])]
    if timing == "same_before":
        f["stmts"] += [produce_stmt(), read_stmt()]
    elif timing == "same_after":
        f["stmts"] += [read_stmt(), produce_stmt()]
    if _vm[0] == "chained" and timing in ("same_before", "same_after"):
        # the two sides written as one expression <first>.count(<second>): the receiver is evaluated before the argument
        f["stmts"][-2]["chain_next"] = True
    else:
        f["stmts"] += [read_stmt()]
    pmain = gen.add_fn(p, m1, "pmain", const=2)
    p["fns"][pmain]["stmts"] = [produce_stmt()]
    p["entry"] = rmain
    p["_ids"] = {"prod": prod, "pcallee": pcallee, "pv": pv, "rmain": rmain, "pmain": pmain, "unrelated": unrelated, "reader": h if placement in ("kept", "kept_helper") else None}
    return p


def edits_of(p, which):
    ids = p["_ids"]
    if which == "prod_const":
        return gen.e_set_const(p, ids["prod"])
    if which == "prod_var":
        return gen.e_set_var(p, ids["pv"])
    if which == "prod_callee":
        return gen.e_set_const(p, ids["pcallee"])
    if which == "unrelated":
        return gen.e_add_extra(p, p["modules"][0], 1, "c9")
    raise ValueError(which)


def case_job(arg):
    placement, producer, timing, edit, store, populated, two_mod, idx = arg[:8]
    load_form = arg[8] if len(arg) > 8 else "assign"
    producer_entry = arg[9] if len(arg) > 9 else "eval"
    via_method = arg[10] if len(arg) > 10 else None
    bnames = arg[11] if len(arg) > 11 else False
    rep = core.Report("C09")
    rep.evaluations = 1
    p0 = build("c9_%d" % idx, placement, producer, timing, two_mod, load_form, via_method, bnames)
    p1, d = edits_of(p0, edit)
    ids = p0["_ids"]
    R, P = ids["rmain"], ids["pmain"]
    hist = []
    if timing == "same_before":
        hist = [{"v": 0, "new_process": True}, {"v": 0}, {"v": 1, "how": "reload"}, {"v": 1, "how": "reload"}, {"v": 0, "new_process": True}, {"v": 1, "new_process": True}]
    elif timing == "same_after":
        pre = [{"v": 0, "new_process": True, "entry": P}] if populated else []
        hist = pre + [{"v": 0, "new_process": not populated, "expect": "reject"}, {"v": 1, "how": "reload", "expect": "reject"}, {"v": 1, "entry": P, "how": "reload"}, {"v": 1, "expect": "reject"}]
    elif timing == "earlier_eval":
        hist = [{"v": 0, "new_process": True, "entry": P}, {"v": 0, "entry": R}, {"v": 0, "entry": R}, {"v": 1, "entry": P, "how": "reload"}, {"v": 1, "entry": R}, {"v": 1, "entry": R, "new_process": True},
                {"v": 0, "entry": P, "new_process": True}, {"v": 0, "entry": R}]
    else:  # never
        hist = [{"v": 0, "new_process": True}, {"v": 1, "how": "reload"}]
    if producer_entry == "direct":
        # the producer is evaluated on its own, as the top-level call (a data function called directly, or a
        # top-level dds.keep): its own blob may then already be stored when it is evaluated again
        for st in hist:
            if st.get("entry") == P:
                st["entry"] = ids["prod"]
                if producer == "data":
                    st["style"] = "call"
                else:
                    st["style"] = "keep"
                    st["keep_path"] = PATH
                    st["args_src"] = "(1,)"
    if store == "memory":
        for i, st in enumerate(hist):
            st["new_process"] = i == 0
            if i > 0 and "how" not in st:
                st["how"] = "reload"
    case = progs._case("load:%s/%s/%s/%s/%s/%s/%s" % (placement, producer, timing, edit, load_form, producer_entry, (via_method or "-") + ("+builtin-names" if bnames else "")), [p0, p1], {(0, 1): d}, hist, store)
    obs = e1.run_case(case)
    if obs["failed"]:
        rep.inconclusive.append(obs["failed"])
        return rep
    for o in obs["steps"]:
        if "setup_error" in o["impl"] or "setup_error" in o["ref"]:
            rep.inconclusive.append("setup error: %s" % (o["impl"].get("setup_error") or o["ref"].get("setup_error"))[-300:])
            return rep
    feats = {"placement": placement, "producer": producer, "timing": timing, "edit": edit, "store": store, "load_form": load_form, "via_method": via_method}

    def classify(case_, hi, f):
        return mech_of(feats, f)

    # expected rejections
    for hi, st in enumerate(hist):
        if st.get("expect") == "reject":
            r = obs["steps"][hi]["impl"]["result"]
            rep.count("read_before_produce_evaluations")
            if r[0] == "ok":
                rep.violate("%s: evaluation that loads %s before producing it returned %s instead of being rejected" % (case["name"], PATH, r[2][:100]), {"case": case, "step": hi},
                            mechanism="read-before-produce-not-rejected:" + ("top" if placement == "top" else "nested"), features=feats)
            elif not r[4]:
                rep.violate("%s: evaluation that loads %s before producing it failed with %s(%s) instead of a DDS error" % (case["name"], PATH, r[1], r[2][:100]), {"case": case, "step": hi},
                            mechanism="read-before-produce-lowlevel-error", features=feats)
            else:
                rep.count("read_before_produce_rejected")
    cut = e1.oracle_values(case, obs, rep, "C09", classify)
    if timing == "never":
        for hi in range(len(hist)):
            r = obs["steps"][hi]["impl"]["result"]
            rep.count("never_produced_evaluations")
            if r[0] == "ok" or not r[4]:
                rep.violate("%s: load of a path that was never kept gave %s" % (case["name"], r[2][:100] if r[0] == "ok" else "%s(%s)" % (r[1], r[2][:100])), {"case": case, "step": hi},
                            mechanism="never-kept-load:" + ("value" if r[0] == "ok" else "lowlevel-error"), features=feats)
    if cut is None and timing in ("same_before", "earlier_eval"):
        e1.oracle_memo(case, obs, rep, None, classify)
        # the kept reader must re-execute when the path serves a new result, and only then
        if placement in ("kept", "kept_helper") and edit != "unrelated":
            log_idx = {"same_before": 2, "earlier_eval": 4}[timing]
            rep.count("reader_invalidation_checks")
            if "reader" not in obs["steps"][log_idx]["impl"]["log"]:
                rep.violate("%s: the kept reader was not re-evaluated after %s changed what it serves" % (case["name"], PATH), {"case": case, "step": log_idx}, mechanism="reader-not-invalidated", features=feats)
    rep.nontriv(("c09", placement, producer, timing, edit, store, populated, two_mod, load_form, via_method, bnames))
    return rep


def mech_of(feats, f):
    return None


def decorated_reader_job(arg):
    """The load sits in a helper wrapped by a plain user decorator (a closure bound to the helper's name; decorators are
    documented as not supported): the evaluation is either refused with a DDS error or returns what plain execution returns -
    never the previous content of the path."""
    import os

    from vp.worker import run_segment

    idx, wraps, store = arg
    rep = core.Report("C09")
    rep.evaluations = 1
    P = "c9deco%d" % idx
    case = {"decorated_reader": True, "idx": idx, "wraps": wraps, "store": store}

    def files(c):
        deco = ("import functools\n\n\ndef logged(fn):\n%s    def inner(*a, **k):\n        return fn(*a, **k)\n    return inner\n" % ("    @functools.wraps(fn)\n" if wraps else ""))
        return {P + "/__init__.py": "# pkg\n", P + "/deco.py": deco,
                P + "/m.py": "import dds\nfrom vp import vlog\nfrom %s.deco import logged\n\nCONST = %d\n\n\ndef prod():\n    vlog.hit('prod')\n    return ('prod', CONST)\n\n\n@logged\ndef latest():\n    return dds.load('/c9d/p')\n\n\n"
                            "def reader():\n    vlog.hit('reader')\n    return ('reader', latest())\n\n\ndef pmain():\n    return dds.keep('/c9d/p', prod)\n\n\ndef rmain():\n    return dds.keep('/c9d/r', reader)\n" % (P, c)}

    def ent(fn):
        return {"style": "eval", "module": P + ".m", "func": fn, "args_src": "()"}

    mods = [P + ".deco", P + ".m"]
    with core.Scratch("vp_c09d_") as td:
        root = os.path.join(td, "code")
        os.makedirs(root)
        steps = [{"write": files(1), "how": "import", "modules": mods, "entry": ent("pmain")}, {"how": "none", "entry": ent("rmain")},
                 {"write": files(2), "how": "reload", "modules": mods, "entry": ent("pmain")}, {"how": "none", "entry": ent("rmain")}]
        o = core.fork_call(run_segment, {"mode": "impl", "root": root, "accept": [P], "steps": steps, "store": {"kind": store, "dir": os.path.join(td, "store")}}, timeout=300)
    if isinstance(o, core.JobFailed):
        rep.inconclusive.append("decorated-reader worker failed: %r" % (o,))
        return rep
    for x in o["steps"]:
        if "setup_error" in x:
            rep.inconclusive.append("setup error: %s" % x["setup_error"][-300:])
            return rep
    for si, c in ((1, 1), (3, 2)):
        r = o["steps"][si]["result"]
        rep.count("decorated_reader_evaluations")
        if r[0] == "exc" and r[4]:
            rep.count("decorated_reader_refused_with_dds_error")
            continue
        want = ("reader", ("prod", c))
        if r[0] != "ok" or pickle.loads(r[1]) != want:
            rep.violate("load inside a helper wrapped by a user decorator (%s functools.wraps): the reader returned %s, the path serves %r" % ("with" if wraps else "without", r[2][:100] if r[0] == "ok" else "%s(%s)" % (r[1], r[2][:80]), ("prod", c)),
                        case, mechanism="decorated-reader-stale")
            return rep
    rep.nontriv(("c09deco", wraps, store))
    return rep


def other_process_job(arg):
    """A long-lived process produces the path and evaluates its reader; another process keeps an edited producer at the
    same path; the first process (same store object, modules untouched) evaluates the reader again: the load must see
    the other process's value and a kept reader must be re-evaluated."""
    import os

    from vp.worker import run_segment

    placement, producer, edit, store, idx = arg[:5]
    rep = core.Report(arg[5] if len(arg) > 5 else "C09")
    restricted = arg[6] if len(arg) > 6 else None  # stage list: the reader's evaluation before the other process is a restricted run
    rep.evaluations = 1
    p0 = build("c9o_%d" % idx, placement, producer, "earlier_eval", False, "assign")
    p1, d = edits_of(p0, edit)
    ids = p0["_ids"]

    def ent(p, fid):
        f = p["fns"][fid]
        return {"style": "eval", "module": gen.modname(p, f["module"]), "func": f["name"], "args_src": "()"}

    case = {"other_process": list(arg)}
    name = "other-process:%s/%s/%s on %s" % (placement, producer, edit, store)
    with core.Scratch("vp_c09o_") as td:
        ra, rb, rr, sdir = (os.path.join(td, x) for x in ("a", "b", "r", "store"))
        for x in (ra, rb, rr, sdir):
            os.makedirs(x)
        side = {"mode": "impl", "root": rb, "accept": [p0["pkg"]], "store": {"kind": store, "dir": sdir},
                "steps": [{"write": gen.render(p1), "how": "import", "modules": gen.import_order(p1), "entry": ent(p1, ids["pmain"])}]}
        seg = {"mode": "impl", "root": ra, "accept": [p0["pkg"]], "store": {"kind": store, "dir": sdir},
               "steps": [{"write": gen.render(p0), "how": "import", "modules": gen.import_order(p0), "entry": ent(p0, ids["pmain"])},
                         {"how": "none", "entry": dict(ent(p0, ids["rmain"]), options={"dds_stages": restricted}) if restricted is not None else ent(p0, ids["rmain"])},
                         {"how": "none", "side": side, "entry": ent(p0, ids["rmain"])},
                         {"how": "none", "entry": ent(p0, ids["rmain"])}]}
        a = core.fork_call(run_segment, seg, timeout=600)
        # reference: what the reader returns once the path serves the edited producer's value (the reader's own code is the same in both versions)
        ref = core.fork_call(run_segment, {"mode": "ref", "root": rr, "accept": [], "steps": [
            {"write": gen.render(p0), "how": "import", "modules": gen.import_order(p0), "entry": ent(p0, ids["pmain"])}, {"how": "none", "entry": ent(p0, ids["rmain"])},
            {"write": gen.render(p1), "how": "reload", "modules": gen.import_order(p1), "entry": ent(p1, ids["pmain"])}, {"how": "none", "entry": ent(p1, ids["rmain"])}]}, timeout=300)
    if isinstance(a, core.JobFailed) or isinstance(ref, core.JobFailed):
        rep.inconclusive.append("other-process worker failed")
        return rep
    for o in a["steps"] + ref["steps"]:
        if "setup_error" in o:
            rep.inconclusive.append("setup error: %s" % o["setup_error"][-300:])
            return rep
    s2 = a["steps"][2]
    if "side_error" in s2 or "side" not in s2 or s2["side"]["steps"][0].get("result", ("exc",))[0] != "ok":
        rep.inconclusive.append("side process failed: %s" % (s2.get("side_error") or s2.get("side", {}).get("steps", [{}])[0].get("result"),))
        return rep
    want_before, want_after = ref["steps"][1]["result"], ref["steps"][3]["result"]
    if want_before[0] != "ok" or want_after[0] != "ok" or want_before[1] == want_after[1]:
        rep.inconclusive.append("reference values do not distinguish the two producers")
        return rep
    rep.count("other_process_updates")
    r1 = a["steps"][1]["result"]
    if restricted is not None:
        if r1[0] != "ok":
            rep.violate("%s: the restricted run (stages %r) of the reader raised %s" % (name, restricted, r1[1:3]), case, mechanism="restricted-run-raised")
            return rep
    elif r1[0] != "ok" or pickle.loads(r1[1]) != pickle.loads(want_before[1]):
        rep.violate("%s: reader before the other process returned %s" % (name, r1[2][:120]), case, mechanism="other-process-baseline-wrong")
        return rep
    for si in (2, 3):
        r = a["steps"][si]["result"]
        rep.count("reads_after_other_process")
        if r[0] != "ok" or pickle.loads(r[1]) != pickle.loads(want_after[1]):
            rep.violate("%s: after another process kept a new result at %s, evaluation %d of the reader in the long-lived process returned %s, expected %s" % (
                name, PATH, si - 1, r[2][:110] if r[0] == "ok" else "%s(%s)" % (r[1], r[2][:80]), want_after[2][:110]), case, mechanism="load-stale-after-other-process")
            return rep
    if placement in ("kept", "kept_helper"):
        rep.count("reader_invalidation_checks")
        if "reader" not in a["steps"][2]["log"]:
            rep.violate("%s: the kept reader was not re-evaluated after another process changed what %s serves" % (name, PATH), case, mechanism="reader-not-invalidated")
        if "reader" in a["steps"][3]["log"]:
            rep.violate("%s: the kept reader was re-evaluated although %s did not change" % (name, PATH), case, mechanism="reader-recomputed")
    rep.nontriv(("c09other", placement, producer, edit, store))
    return rep


def run(tier, seed):
    rep = core.Report("C09")
    rep.rule = (
        "load written as an assignment / positional argument / keyword argument / inside a subscript / inside str.format(), placed at top level of the evaluated function / in a non-kept helper / two helpers down / inside a kept function / in a helper of a kept function (either side optionally reached through a method of a class) x producer (data function, keep call) x "
        "timing (earlier in the same evaluation, later in the same evaluation [must be rejected], by an earlier evaluation, never) x edits (producer body, producer variable, producer callee, unrelated) x "
        "stores memory/local x fresh/populated x one or two modules; histories with re-evaluation, edit, revert, restart; plus a second process keeping an edited producer between two evaluations of the reader by a long-lived process (stores local, local+cache, DBFS fake). "
        "distinct_nontrivial = distinct combinations fully observed."
    )
    jobs = []
    idx = 0
    for placement in PLACEMENTS:
        for producer in PRODUCERS:
            for timing in TIMINGS:
                for edit in ("prod_const", "prod_var", "prod_callee", "unrelated"):
                    for store in ("local", "memory"):
                        for populated in (False, True):
                            idx += 1
                            if timing != "same_after" and populated:
                                continue
                            if tier == "quick" and timing == "never" and edit != "prod_const":
                                continue
                            jobs.append((placement, producer, timing, edit, store, populated, idx % 2 == 0, idx, "assign"))
                            if store == "local" and timing in ("earlier_eval", "same_before") and edit in ("prod_const", "prod_var") and not populated:
                                # the DBFS store that commits redirections only
                                jobs.append((placement, producer, timing, edit, "dbfs_links", populated, idx % 2 == 0, idx * 10 + 3, "assign"))
                            if timing == "earlier_eval" and edit != "unrelated":
                                jobs.append((placement, producer, timing, edit, store, populated, idx % 2 == 0, idx * 10 + 9, "assign", "direct"))
                            # the helpers that contain the load carry names of Python builtins
                            if edit in ("prod_const", "prod_var") and placement in ("helper", "helper2", "kept_helper") and timing != "never" and store == "local":
                                jobs.append((placement, producer, timing, edit, store, populated, idx % 2 == 0, idx * 10 + 4, "assign", "eval", None, True))
                            # one or both sides of the pipeline reached through a method of a class
                            if edit == "prod_const" and (timing != "never") and (tier != "quick" or store == "local"):
                                for vi, vm in enumerate(("producer", "reader", "both", "producer_class_by_name", "reader_thread", "chained")):
                                    if vm == "chained" and (timing not in ("same_before", "same_after") or placement in ("kept", "kept_helper") and producer == "keep"):
                                        continue
                                    if tier == "quick" and (idx + vi) % 3 != 0 and not (placement == "top" and timing == "same_before") and not (vm == "producer_class_by_name" and placement in ("kept", "top")) and not (vm == "reader_thread" and timing == "same_before") and vm != "chained":
                                        continue
                                    jobs.append((placement, producer, timing, edit, store, populated, False, idx * 10 + 5 + vi, "assign", "eval", vm))
                            # the other syntactic positions of the load expression
                            for fi, form in enumerate(gen.LOAD_FORMS[1:]):
                                if edit == "prod_const" and store == "local" and timing in ("same_before", "earlier_eval", "same_after") and (tier != "quick" or (idx + fi) % 2 == 0 or placement == "kept"):
                                    jobs.append((placement, producer, timing, edit, store, populated, idx % 2 == 0, idx * 10 + fi + 1, form))
    ojobs = []
    for placement in PLACEMENTS:
        for producer in PRODUCERS:
            for ei, edit in enumerate(("prod_const", "prod_var", "prod_callee")):
                for si, store in enumerate(("local", "local_lru", "dbfs", "local_api_cache_all", "local_api_cache_true", "dbfs_links")):
                    idx += 1
                    if tier == "quick" and (ei + si + len(placement)) % 3 == 0 and store not in ("local_lru", "local_api_cache_all"):
                        continue
                    ojobs.append((placement, producer, edit, store, idx))
    dres = core.fork_map(decorated_reader_job, [(di, w, st) for di, (w, st) in enumerate([(False, "local"), (True, "local"), (False, "memory"), (True, "local_lru")])], timeout=600)
    for r in dres:
        if isinstance(r, core.JobFailed):
            rep.inconclusive.append("decorated reader: %r" % (r,))
        else:
            rep.merge(r)
    results = core.fork_map(lambda j: other_process_job(j[1]) if j[0] == "o" else case_job(j[1]), [("c", j) for j in jobs] + [("o", j) for j in ojobs], timeout=900)
    for j, r in zip(jobs + [None] * len(ojobs), results):
        if isinstance(r, core.JobFailed):
            rep.inconclusive.append("case: %r" % (r,))
            continue
        rep.merge(r)
        if j is not None:
            rep.bump("placement", j[0])
            rep.bump("timing", j[2])
    rep.sample({"placement": jobs[0][0], "producer": jobs[0][1], "timing": jobs[0][2], "edit": jobs[0][3], "program": gen.render(build("c9_sample", "kept", "keep", "same_before"))["c9_sample/l0.py"][-900:]})
    rep.assumptions = ["loads use literal paths, one load site per path and evaluation"]
    return rep


def replay(payload):
    rep = core.Report("C09")
    if "other_process" in payload["case"]:
        rep.merge(other_process_job(tuple(payload["case"]["other_process"])))
        return rep
    if payload["case"].get("decorated_reader"):
        c = payload["case"]
        rep.merge(decorated_reader_job((c["idx"], c["wraps"], c["store"])))
        return rep
    c = payload["case"]["case"]
    name = c["name"].split(":", 1)[1]
    placement, producer, timing, edit = name.split("/")[:4]
    load_form = (name.split("/") + ["assign"])[4]
    producer_entry = (name.split("/") + ["assign", "eval"])[5]
    via_method = (name.split("/") + ["assign", "eval", "-"])[6]
    bnames = via_method.endswith("+builtin-names")
    via_method = via_method.replace("+builtin-names", "")
    via_method = None if via_method == "-" else via_method
    idx = int(c["versions"][0]["pkg"].split("_")[1])
    populated = any(st.get("entry") for st in c["history"][:1]) and timing == "same_after"
    rep.merge(case_job((placement, producer, timing, edit, c["store"], populated, len(c["versions"][0]["modules"]) == 2, idx, load_form, producer_entry, via_method, bnames)))
    return rep
