"""
C15 - restricting the stages makes an evaluation a side-effect-free dry run.

Monitor: execution log, calls recorded by the wrapping Store (store_blob, sync_paths), a hash of
the store's directory tree, the path -> signature map computed by the restricted run (wrapper on
the internal all_store_paths, hits counted), and values/loads of the following full evaluation.
"""
import os
import pickle

from vp import core, gen, progs
from vp.worker import run_segment

ORDER = ["analysis", "store_inspect", "eval", "store_commit", "path_commit"]


def stage_variants(k, rng):
    """Spellings of the prefix of length k of the stage order."""
    names = ORDER[:k]
    out = [list(names), [n.upper() for n in names], [n.capitalize() for n in names], ["ENUM:" + n.upper() for n in names]]
    mix = []
    for i, n in enumerate(names):
        mix.append([n, n.upper(), "ENUM:" + n.upper(), n.title()][i % 4])
    out.append(mix)
    return out


def _entry(p, opts=None, style="eval"):
    f = p["fns"][p["entry"]]
    e = {"style": style, "module": gen.modname(p, f["module"]), "func": f["name"], "args_src": "()"}
    if opts:
        e["options"] = opts
    return e


def case_job(arg):
    p0, p1, stages, k, store_kind, populated, same_process = arg
    rep = core.Report("C15")
    rep.evaluations = 1
    case = {"program": p0, "edited": p1, "stages": stages, "store": store_kind, "populated": populated, "same_process": same_process}
    desc = "stages=%r store=%s populated=%s" % (stages, store_kind, populated)
    with core.Scratch("vp_c15_") as td:
        root = os.path.join(td, "code")
        os.makedirs(root)
        sdir = os.path.join(td, "store")
        tdir = os.path.join(td, "twin")
        target = p1 if populated else p0
        nodes = gen.kept_nodes(target)
        loads = sorted(gen.kept_nodes(p0)) if populated else []
        steps = []
        if populated:
            steps.append({"write": gen.render(p0), "how": "import", "modules": gen.import_order(p0), "entry": _entry(p0), "post_loads": loads})
            steps.append({"write": gen.render(p1), "how": "reload", "modules": gen.import_order(p1), "entry": _entry(p1, {"dds_stages": stages}), "post_loads": loads})
            # ... and once more: the second restricted run finds the blobs that the first one may have stored
            steps.append({"how": "none", "entry": _entry(p1, {"dds_stages": stages}), "post_loads": loads})
        else:
            steps.append({"write": gen.render(p0), "how": "import", "modules": gen.import_order(p0), "entry": _entry(p0, {"dds_stages": stages}), "post_loads": []})
        steps.append({"how": "none", "entry": _entry(target), "post_loads": sorted(nodes)})
        segs = [steps] if same_process or store_kind == "memory" else [steps[:-1], [dict(steps[-1], write=gen.render(target), how="import", modules=gen.import_order(target))]]
        outs = []
        for st in segs:
            seg = {"mode": "impl", "root": root, "accept": [p0["pkg"]], "steps": st, "store": {"kind": store_kind, "dir": sdir}, "tree_hash": store_kind != "memory"}
            o = core.fork_call(run_segment, seg, timeout=300)
            if isinstance(o, core.JobFailed):
                rep.inconclusive.append("worker: %r" % (o,))
                return rep
            outs += o["steps"]
        # twin: unrestricted run of the target on a fresh store (signatures) and the reference values
        twin = core.fork_call(run_segment, {"mode": "impl", "root": root, "accept": [p0["pkg"]], "store": {"kind": "memory", "dir": tdir},
                                            "steps": [{"write": gen.render(target), "how": "import", "modules": gen.import_order(target), "entry": _entry(target)}]}, timeout=300)
        ref = core.fork_call(run_segment, {"mode": "ref", "root": root, "accept": [], "steps": [{"write": gen.render(target), "how": "import", "modules": gen.import_order(target), "entry": _entry(target)}]}, timeout=300)
        if isinstance(twin, core.JobFailed) or isinstance(ref, core.JobFailed):
            rep.inconclusive.append("twin/ref worker failed")
            return rep
    ri = 1 if populated else 0
    restricted, full = outs[ri], outs[-1]
    repeated = outs[2] if populated else None
    before = outs[0] if populated else None
    for o in outs + twin["steps"] + ref["steps"]:
        if "setup_error" in o:
            rep.inconclusive.append("setup error: %s" % o["setup_error"][-300:])
            return rep

    def bad(what, mech):
        rep.violate("%s: %s" % (desc, what), case, mechanism=mech)

    r = restricted["result"]
    runs_user_code = k >= 3  # the eval stage is included
    commits_paths = k >= 5
    rep.count("restricted_runs")
    twin_sigs = dict(twin["steps"][0]["all_paths"][-1]) if twin["steps"][0]["all_paths"] else {}
    got_sigs = dict(restricted["all_paths"][-1]) if restricted.get("all_paths") else None
    if r[0] != "ok":
        bad("restricted evaluation raised %s(%s)" % (r[1], r[2][:150]), "restricted-run-raised")
        return rep
    if got_sigs is None:
        rep.inconclusive.append("signature wrapper never reached")
        return rep
    rep.count("signature_maps_compared")
    if got_sigs != twin_sigs:
        bad("signatures computed by the restricted run differ from an unrestricted run", "restricted-signatures-differ")
    if not runs_user_code:
        rep.count("dry_runs")
        if pickle.loads(r[1]) is not None:
            bad("analysis-only evaluation returned %s" % r[2][:80], "dry-run-returned-value")
        if restricted["log"]:
            bad("analysis-only evaluation ran user code: %r" % restricted["log"][:5], "dry-run-ran-user-code")
        if restricted["stored"]:
            bad("analysis-only evaluation stored %d blob(s)" % len(restricted["stored"]), "dry-run-stored-blob")
    if not commits_paths:
        if restricted["sync_begun"]:
            bad("evaluation restricted to %r committed paths" % (stages,), "restricted-run-committed-paths")
        if populated:
            # every path still serves what it served before - also after the restricted run is repeated
            for label, rr_ in (("the restricted run", restricted), ("the repeated restricted run", repeated)):
                if rr_.get("result", ("exc",))[0] != "ok":
                    bad("%s raised %r" % (label, rr_.get("result", ["?"])[1:3]), "restricted-run-raised")
                    continue
                if rr_["sync_begun"]:
                    bad("%s (stages %r) committed paths" % (label, stages), "restricted-run-committed-paths")
                for path, lv in (before.get("loads") or {}).items():
                    rep.count("path_state_checks")
                    if rr_["loads"].get(path, ("?",))[:2] != lv[:2]:
                        bad("path %s serves something else after %s" % (path, label), "restricted-run-changed-path")
        else:
            pass
        if not runs_user_code and restricted.get("tree") is not None:
            base_tree = before["tree"] if populated else None
            if populated and restricted["tree"] != base_tree:
                bad("store directory changed during an analysis-only evaluation", "dry-run-changed-store")
    # the following full evaluation
    fr = full["result"]
    rr = ref["steps"][0]["result"]
    rep.count("followup_full_evaluations")
    if fr[0] != "ok" or rr[0] != "ok" or pickle.loads(fr[1]) != pickle.loads(rr[1]):
        bad("full evaluation after the restricted run returned %s, reference %s" % (fr[1:3] if fr[0] != "ok" else fr[2][:100], rr[2][:100] if rr[0] == "ok" else rr[1:3]), "followup-wrong-value")
    else:
        kept_names = set(target["fns"][n["fn"]]["name"] for n in nodes.values() if n["fn"])
        ran = [x for x in full["log"] if x in kept_names]
        if runs_user_code and store_kind != "noop" and (same_process or store_kind != "memory") and ran:
            bad("full evaluation after a blobs-only run re-executed %r" % ran[:4], "followup-recomputed")
        if dict(full["syncs"][-1]) != twin_sigs if full["syncs"] else True:
            bad("full evaluation after the restricted run committed other signatures than a clean run", "followup-signatures-differ")
        for path in nodes:
            lv = full["loads"].get(path)
            if lv is None or lv[0] != "ok":
                bad("path %s not loadable after the full evaluation" % path, "followup-path-missing")
    rep.nontriv(("c15", gen.h(gen.render(p0)), repr(stages), store_kind, populated))
    return rep


def orphan_job(arg):
    """Store state left by a killed writer (blobs whose metadata never arrived), then a dry run of the pipeline that
    owns those keys: it must not touch the store directory; the following full evaluation returns the reference values."""
    p0, stages, k, store_kind, same_process = arg
    rep = core.Report("C15")
    rep.evaluations = 1
    case = {"orphan": True, "program": p0, "stages": stages, "store": store_kind, "same_process": same_process}
    desc = "stages=%r store=%s after blobs lost their metadata (killed writer)" % (stages, store_kind)
    nodes = gen.kept_nodes(p0)
    with core.Scratch("vp_c15o_") as td:
        root = os.path.join(td, "code")
        os.makedirs(root)
        sdir = os.path.join(td, "store")
        first = {"write": gen.render(p0), "how": "import", "modules": gen.import_order(p0), "entry": _entry(p0)}
        dry = {"write": gen.render(p0), "how": "import", "modules": gen.import_order(p0), "store_damage": "drop_meta", "entry": _entry(p0, {"dds_stages": stages})}
        full = {"how": "none", "entry": _entry(p0), "post_loads": sorted(nodes)}
        segs = [[first], [dry, full]] if same_process else [[first], [dry], [dict(full, write=gen.render(p0), how="import", modules=gen.import_order(p0))]]
        outs = []
        for st in segs:
            o = core.fork_call(run_segment, {"mode": "impl", "root": root, "accept": [p0["pkg"]], "steps": st, "store": {"kind": store_kind, "dir": sdir}, "tree_hash": True}, timeout=300)
            if isinstance(o, core.JobFailed):
                rep.inconclusive.append("worker: %r" % (o,))
                return rep
            outs += o["steps"]
        ref = core.fork_call(run_segment, {"mode": "ref", "root": root, "accept": [], "steps": [{"write": gen.render(p0), "how": "import", "modules": gen.import_order(p0), "entry": _entry(p0)}]}, timeout=300)
    if isinstance(ref, core.JobFailed):
        rep.inconclusive.append("ref worker failed")
        return rep
    for o in outs + ref["steps"]:
        if "setup_error" in o:
            rep.inconclusive.append("setup error: %s" % o["setup_error"][-300:])
            return rep
    d, f = outs[1], outs[2]
    if not d.get("damaged"):
        rep.inconclusive.append("no metadata file found to remove")
        return rep

    def bad(what, mech):
        rep.violate("%s: %s" % (desc, what), case, mechanism=mech)

    rep.count("dry_runs_on_damaged_store")
    if d["result"][0] != "ok":
        bad("restricted evaluation raised %s(%s)" % (d["result"][1], d["result"][2][:150]), "restricted-run-raised")
        return rep
    if d["log"]:
        bad("dry run ran user code: %r" % d["log"][:5], "dry-run-ran-user-code")
    if d["stored"] or d["sync_begun"]:
        bad("dry run wrote to the store (%d blobs, %d commits)" % (len(d["stored"]), d["sync_begun"]), "dry-run-stored-blob")
    if d["tree"] != d["tree_before"]:
        bad("store directory changed during the dry run", "dry-run-changed-store")
    fr, rr = f["result"], ref["steps"][0]["result"]
    rep.count("followup_full_evaluations")
    if fr[0] != "ok" or rr[0] != "ok" or pickle.loads(fr[1]) != pickle.loads(rr[1]):
        bad("full evaluation after the dry run returned %s, reference %s" % (fr[1:3] if fr[0] != "ok" else fr[2][:100], rr[2][:100] if rr[0] == "ok" else rr[1:3]), "followup-wrong-value")
    for path in nodes:
        lv = f["loads"].get(path)
        if lv is None or lv[0] != "ok":
            bad("path %s not loadable after the full evaluation" % path, "followup-path-missing")
    rep.nontriv(("c15orphan", gen.h(gen.render(p0)), repr(stages), store_kind))
    return rep


def dep_change_job(arg):
    """Full evaluation, dry run, then a dependency of the evaluated function changes while the function object itself
    stays the same (a module variable is re-assigned in place, or only the callee's module is rewritten and reloaded),
    then a full evaluation: it must return what plain execution returns, as if the dry run had not happened."""
    stages, how, store_kind, idx = arg
    rep = core.Report("C15")
    rep.evaluations = 1
    p0 = progs.base_program("c15d%d" % idx, import_form="import_mod_as")
    ids = p0["_ids"]
    vid = gen.add_var(p0, ids["leaf"], "V_DEP", "int")
    p0["order"][ids["leaf"]].remove(("var", vid))
    p0["order"][ids["leaf"]].insert(0, ("var", vid))
    p0["fns"][ids["h2"]]["reads"].append([vid, "bare"])
    if how == "mutate":
        p1, _ = gen.e_set_var(p0, vid)
    else:
        p1, _ = gen.e_set_const(p0, ids["h2"])
    leafmod = gen.modname(p0, ids["leaf"])
    change = {"how": "none", "mutate": [(leafmod, "V_DEP", p1["vars"][vid]["value"])]} if how == "mutate" else {"write": gen.render(p1), "how": "reload", "modules": [leafmod]}
    case = {"dep_change": True, "stages": stages, "how": how, "store": store_kind, "idx": idx}
    desc = "full run, dry run with stages=%r, then %s, then a full run (store %s)" % (stages, "a module variable re-assigned in place" if how == "mutate" else "only the callee's module rewritten and reloaded", store_kind)
    with core.Scratch("vp_c15d_") as td:
        root = os.path.join(td, "code")
        os.makedirs(root)
        steps = [{"write": gen.render(p0), "how": "import", "modules": gen.import_order(p0), "entry": _entry(p0)},
                 {"how": "none", "entry": _entry(p0, {"dds_stages": stages})},
                 dict(change, entry=_entry(p0), post_loads=sorted(gen.kept_nodes(p0)))]
        o = core.fork_call(run_segment, {"mode": "impl", "root": root, "accept": [p0["pkg"]], "steps": steps, "store": {"kind": store_kind, "dir": os.path.join(td, "store")}}, timeout=300)
        rsteps = [dict(st) for st in steps]
        rsteps[1] = {"how": "none"}
        ref = core.fork_call(run_segment, {"mode": "ref", "root": os.path.join(td, "code"), "accept": [], "steps": rsteps}, timeout=300)
    if isinstance(o, core.JobFailed) or isinstance(ref, core.JobFailed):
        rep.inconclusive.append("dep-change worker failed")
        return rep
    for x in o["steps"] + ref["steps"]:
        if "setup_error" in x:
            rep.inconclusive.append("setup error: %s" % x["setup_error"][-300:])
            return rep
    a0, a2, r0, r2 = o["steps"][0]["result"], o["steps"][2]["result"], ref["steps"][0]["result"], ref["steps"][2]["result"]
    if r0[0] != "ok" or r2[0] != "ok" or r0[1] == r2[1]:
        rep.inconclusive.append("reference does not distinguish the two versions")
        return rep
    rep.count("dependency_changes_after_dry_run")
    if o["steps"][1]["log"] or o["steps"][1]["stored"] or o["steps"][1]["sync_begun"]:
        rep.violate("%s: the dry run ran user code or wrote to the store" % desc, case, mechanism="dry-run-ran-user-code")
    if a0[0] != "ok" or pickle.loads(a0[1]) != pickle.loads(r0[1]):
        rep.violate("%s: first full run returned %s" % (desc, a0[2][:100] if a0[0] == "ok" else a0[1:3]), case, mechanism="followup-wrong-value")
    elif a2[0] != "ok" or pickle.loads(a2[1]) != pickle.loads(r2[1]):
        rep.violate("%s: the full run after the change returned %s, plain execution returns %s" % (desc, a2[2][:100] if a2[0] == "ok" else a2[1:3], r2[2][:100]), case, mechanism="followup-wrong-value")
    else:
        rep.nontriv(("c15dep", repr(stages), how, store_kind))
    return rep


def samename_job(arg):
    """A pipeline whose call tree holds two functions of the same bare name in two accepted modules (pa_mod.g used by
    pa_mod, pb_mod.g used through its module): restricted run, full run, edit of one of the two, full run - all in one
    process. Signatures and values equal those of a process that never did the restricted run."""
    stages, store_kind, first, idx = arg
    rep = core.Report("C15")
    rep.evaluations = 1
    pkg = "c15s%d" % idx
    ma, mb = ("pa_mod", "pb_mod") if first == "caller-sorts-first" else ("pz_mod", "pb_mod")

    def files(ca, cb):
        return {
            pkg + "/__init__.py": "# pkg\n",
            pkg + "/%s.py" % mb: "from vp import vlog\n\n\ndef g():\n    vlog.hit('%s.g')\n    return ('%s.g', %d)\n" % (mb, mb, cb),
            pkg + "/%s.py" % ma: "import dds\nfrom vp import vlog\nfrom %s import %s\n\n\ndef g():\n    vlog.hit('%s.g')\n    return ('%s.g', %d)\n\n\ndef K():\n    vlog.hit('K')\n    return ('K', g(), %s.g())\n\n\n"
                                 "def main():\n    return ('main', dds.keep('/c15s/out', K))\n" % (pkg, mb, ma, ma, ca, mb),
        }

    mods = [pkg + "." + mb, pkg + "." + ma]
    ent = {"style": "eval", "module": pkg + "." + ma, "func": "main", "args_src": "()"}
    full_steps = [{"write": files(1, 100), "how": "import", "modules": mods, "entry": ent}, {"write": files(2, 100), "how": "reload", "modules": mods, "entry": ent}, {"write": files(2, 200), "how": "reload", "modules": mods, "entry": ent}]
    steps = [{"write": files(1, 100), "how": "import", "modules": mods, "entry": dict(ent, options={"dds_stages": stages})}] + [dict(st, how="reload" if i else "none") for i, st in enumerate(full_steps)]
    case = {"samename": True, "stages": stages, "store": store_kind, "first": first, "idx": idx}
    desc = "two functions named g in modules %s and %s; run restricted to %r, then full runs with edits of each g (one process, store %s)" % (ma, mb, stages, store_kind)
    with core.Scratch("vp_c15s_") as td:
        root = os.path.join(td, "code")
        os.makedirs(root)
        o = core.fork_call(run_segment, {"mode": "impl", "root": root, "accept": [pkg], "steps": steps, "store": {"kind": store_kind, "dir": os.path.join(td, "store")}}, timeout=300)
        twin = core.fork_call(run_segment, {"mode": "impl", "root": os.path.join(td, "code2"), "accept": [pkg], "steps": full_steps, "store": {"kind": store_kind, "dir": os.path.join(td, "store2")}}, timeout=300)
    if isinstance(o, core.JobFailed) or isinstance(twin, core.JobFailed):
        rep.inconclusive.append("same-name worker failed: %r %r" % (o, twin))
        return rep
    for x in o["steps"] + twin["steps"]:
        if "setup_error" in x:
            rep.inconclusive.append("setup error: %s" % x["setup_error"][-300:])
            return rep
    wants = [("main", ("K", (ma + ".g", ca), (mb + ".g", cb))) for ca, cb in ((1, 100), (2, 100), (2, 200))]
    for i, want in enumerate(wants):
        a, t = o["steps"][i + 1], twin["steps"][i]
        rep.count("followup_full_evaluations")
        if t["result"][0] != "ok" or pickle.loads(t["result"][1]) != want:
            rep.violate("%s: full run %d in a process without the restricted run returned %s" % (desc, i, t["result"][2][:100] if t["result"][0] == "ok" else t["result"][1:3]), case, mechanism="followup-wrong-value")
            return rep
        if a["result"][0] != "ok" or pickle.loads(a["result"][1]) != want:
            rep.violate("%s: full run %d returned %s, plain execution gives %r" % (desc, i, a["result"][2][:100] if a["result"][0] == "ok" else a["result"][1:3], want), case, mechanism="followup-wrong-value")
            return rep
        rep.count("signature_maps_compared")
        if not a["syncs"] or not t["syncs"] or dict(a["syncs"][-1]) != dict(t["syncs"][-1]):
            rep.violate("%s: full run %d committed other signatures than the same run in a process that never did the restricted run" % (desc, i), case, mechanism="followup-signatures-differ")
            return rep
    rep.nontriv(("c15same", repr(stages), store_kind, first))
    return rep


def graph_dry_job(arg):
    """A pipeline that loads a path produced by an earlier evaluation is analysed (or run up to a stage before the path
    commit) with dds_export_graph: afterwards no path serves anything it did not serve before - in particular the paths
    the restricted run would keep are still absent - and nothing was committed."""
    stages, store_kind, producer, idx = arg
    from checks import c09

    rep = core.Report("C15")
    rep.evaluations = 1
    p0 = c09.build("c15g%d" % idx, "kept", producer, "earlier_eval")
    ids = p0["_ids"]
    fr, fp = p0["fns"][ids["rmain"]], p0["fns"][ids["pmain"]]
    ent_r = {"style": "eval", "module": gen.modname(p0, fr["module"]), "func": fr["name"], "args_src": "()"}
    ent_p = {"style": "eval", "module": gen.modname(p0, fp["module"]), "func": fp["name"], "args_src": "()"}
    paths = [c09.PATH, "/c9/reader"]
    case = {"graph_dry": True, "stages": stages, "store": store_kind, "producer": producer, "idx": idx}
    desc = "producer evaluated, then the reader evaluated with stages=%r and dds_export_graph (store %s)" % (stages, store_kind)
    with core.Scratch("vp_c15g_") as td:
        root = os.path.join(td, "code")
        os.makedirs(root)
        steps = [{"write": gen.render(p0), "how": "import", "modules": gen.import_order(p0), "entry": ent_p, "post_loads": paths},
                 {"how": "none", "entry": dict(ent_r, options={"dds_stages": stages, "dds_export_graph": "@root"}), "post_loads": paths},
                 {"how": "none", "entry": ent_r, "post_loads": paths}]
        o = core.fork_call(run_segment, {"mode": "impl", "root": root, "accept": [p0["pkg"]], "steps": steps, "store": {"kind": store_kind, "dir": os.path.join(td, "store")}}, timeout=300)
        ref = core.fork_call(run_segment, {"mode": "ref", "root": root, "accept": [], "steps": [dict(steps[0]), {"how": "none", "entry": ent_r}]}, timeout=300)
    if isinstance(o, core.JobFailed) or isinstance(ref, core.JobFailed):
        rep.inconclusive.append("graph dry-run worker failed: %r %r" % (o, ref))
        return rep
    for x in o["steps"] + ref["steps"]:
        if "setup_error" in x:
            rep.inconclusive.append("setup error: %s" % x["setup_error"][-300:])
            return rep
    a0, a1, a2 = o["steps"]
    if a0["result"][0] != "ok" or a1["result"][0] != "ok":
        rep.violate("%s: raised %r" % (desc, (a0["result"][1:3], a1["result"][1:3])), case, mechanism="restricted-run-raised")
        return rep
    rep.count("restricted_runs")
    rep.count("restricted_runs_with_graph_export")
    if a1["sync_begun"]:
        rep.violate("%s: the restricted run committed paths" % desc, case, mechanism="restricted-run-committed-paths")
    for pth in paths:
        rep.count("path_state_checks")
        before, after = a0["loads"].get(pth, ("?",)), a1["loads"].get(pth, ("?",))
        unserved = lambda lv: lv[0] != "ok" or pickle.loads(lv[1]) is None
        if (unserved(before) != unserved(after)) or (not unserved(before) and before[:2] != after[:2]):
            rep.violate("%s: path %s serves %s after the restricted run, before it %s" % (desc, pth, after[2][:60] if after[0] == "ok" else after[1:3], before[2][:60] if before[0] == "ok" else before[1:3]), case,
                        mechanism="restricted-run-changed-path")
    rep.count("followup_full_evaluations")
    if a2["result"][0] != "ok" or ref["steps"][1]["result"][0] != "ok" or pickle.loads(a2["result"][1]) != pickle.loads(ref["steps"][1]["result"][1]):
        rep.violate("%s: the following full evaluation returned %s" % (desc, a2["result"][2][:100] if a2["result"][0] == "ok" else a2["result"][1:3]), case, mechanism="followup-wrong-value")
    rep.nontriv(("c15graph", repr(stages), store_kind, producer))
    return rep


def lazy_attr_job(arg):
    """An accepted module that provides a name lazily (module-level __getattr__, PEP 562): a dry run of a function that
    mentions that name runs no user code - the hook included."""
    stages, store_kind, idx = arg
    rep = core.Report("C15")
    rep.evaluations = 1
    pkg = "c15g%d" % idx
    files = {
        pkg + "/__init__.py": "",
        pkg + "/lazy.py": "from vp import vlog\n\nPLAIN = 2\n\n\ndef __getattr__(name):\n    vlog.hit('module_getattr:' + name)\n    if name == 'FACTOR':\n        return 3\n    raise AttributeError(name)\n",
        pkg + "/main.py": "import dds\nfrom vp import vlog\nfrom %s import lazy\nimport %s.lazy\n\n\ndef K():\n    vlog.hit('K')\n    return ('K', lazy.FACTOR, %s.lazy.FACTOR, lazy.PLAIN)\n\n\ndef main():\n    vlog.hit('main')\n    return ('main', dds.keep('/c15g/k', K))\n" % (pkg, pkg, pkg),
    }
    case = {"lazy_attr": True, "stages": stages, "store": store_kind, "idx": idx}
    ent = {"style": "eval", "module": pkg + ".main", "func": "main", "args_src": "()"}
    with core.Scratch("vp_c15g_") as td:
        root = os.path.join(td, "code")
        os.makedirs(root)
        o = core.fork_call(run_segment, {"mode": "impl", "root": root, "accept": [pkg], "store": {"kind": store_kind, "dir": os.path.join(td, "store")},
                                         "steps": [{"write": files, "how": "import", "modules": [pkg + ".main"], "entry": dict(ent, options={"dds_stages": stages})}, {"how": "none", "entry": ent}]}, timeout=300)
    if isinstance(o, core.JobFailed):
        rep.inconclusive.append("lazy-attr worker: %r" % (o,))
        return rep
    dry, full = o["steps"]
    for x in (dry, full):
        if "setup_error" in x:
            rep.inconclusive.append("setup error: %s" % x["setup_error"][-300:])
            return rep
    rep.count("dry_runs")
    if dry["result"][0] != "ok":
        rep.violate("dry run (stages %r) over a module with a lazy attribute raised %s(%s)" % (stages, dry["result"][1], dry["result"][2][:120]), case, mechanism="restricted-run-raised")
    elif dry["log"]:
        rep.violate("dry run (stages %r) ran user code: %r" % (stages, dry["log"][:4]), case, mechanism="dry-run-ran-user-code")
    if full["result"][0] != "ok" or pickle.loads(full["result"][1]) != ("main", ("K", 3, 3, 2)):
        rep.violate("full evaluation after the dry run returned %s" % (full["result"][2][:100] if full["result"][0] == "ok" else full["result"][1:3],), case, mechanism="followup-wrong-value")
    else:
        rep.nontriv(("c15lazy", repr(stages), store_kind))
    return rep


def run(tier, seed):
    rep = core.Report("C15")
    rng = core.rng_for(seed, "c15")
    rep.rule = (
        "programs (matrix skeletons in 4 layouts + random DAG programs) x stage lists = every prefix of the stage order (length 0-5) spelled lower / upper / capitalised / as enum members / mixed "
        "x stores memory, local, local+cache x fresh or populated store (full run of v0, then restricted run of an edited v1) x follow-up in the same or a new process; plus dry runs on a local store whose blobs lost their metadata files (the state a killed writer leaves): directory tree unchanged; and full run -> dry run -> a dependency changes under the same function object (variable re-assigned in place / only the callee's module reloaded) -> full run. "
        "distinct_nontrivial = distinct (program, stage list, store, populated) cases whose restricted run and follow-up full run were both observed."
    )
    programs = []
    for i, lay in enumerate(("three", "one", "two", "deep")):
        programs.append(progs.base_program("c15b%d" % i, layout=lay, entry_data=(i % 2 == 1)))
    # a data function that the evaluated function runs in a worker thread (handed by name to an untracked runner)
    q = progs.base_program("c15t0", layout="three")
    tb = gen.add_fn(q, q["_ids"]["mid"], "TB", const=48, data_path="/thread/b")
    q["fns"][q["_ids"]["main"]]["stmts"].append(gen.s_ref(tb, runner="thread"))
    programs.append(q)
    nrand = 8 if tier == "quick" else 60
    while len(programs) < 5 + nrand:
        p = progs.random_program(rng, "c15r%d" % len(programs))
        if len(gen.kept_nodes(p)) >= 2:
            programs.append(p)
    jobs = []
    for pi, p0 in enumerate(programs):
        p1, _ = gen.e_set_const(p0, rng.choice(gen.reach(p0, p0["entry"])))
        for k in range(0, 6):
            variants = stage_variants(k, rng) if k else [[]]
            if tier == "quick":
                variants = [variants[(pi + k + seed) % len(variants)]] + ([variants[0]] if k in (1, 4) else [])
            for stages in variants:
                for store_kind in ("memory", "local", "local_lru"):
                    if tier == "quick" and (pi + k + len(store_kind)) % 3 == 0 and pi >= 5:
                        continue
                    for populated in (False, True):
                        jobs.append((p0, p1, stages, k, store_kind, populated, (pi + k) % 2 == 0))
    ojobs = []
    for pi, p0 in enumerate(programs):
        for k in (1, 2):
            vs = stage_variants(k, rng)
            for store_kind in ("local", "local_lru"):
                ojobs.append((p0, vs[(pi + k) % len(vs)], k, store_kind, (pi + k) % 2 == 0))
    djobs = []
    for k in (1, 2):
        for vi, stages in enumerate(stage_variants(k, rng)[:3]):
            for how in ("mutate", "reload_callee_module"):
                for store_kind in ("local", "memory", "local_lru"):
                    if tier == "quick" and (k + vi + len(how) + len(store_kind)) % 2:
                        continue
                    djobs.append((stages, how, store_kind, len(djobs)))
    gjobs = [(stages, sk, gi) for gi, (stages, sk) in enumerate([(["analysis"], "local"), (["ANALYSIS", "STORE_INSPECT"], "memory"), (["analysis"], "local_lru"), ([], "local")])]
    sjobs = [(stages, sk, first, si * 2 + fi) for si, (stages, sk) in enumerate([(["analysis"], "local"), (["analysis", "store_inspect"], "memory"), (["analysis", "store_inspect", "eval", "store_commit"], "local_lru"), ([], "local")])
             for fi, first in enumerate(("caller-sorts-first", "caller-sorts-last"))]
    # a restricted run of a reader in a long-lived process, another process keeps an edited producer, then the full run
    from checks import c09

    pjobs = [(pl, pr, ed, st, 8000 + pi_, "C15", stg) for pi_, (pl, pr, ed, st, stg) in enumerate([
        ("top", "data", "prod_const", "local_api_cache_all", ["analysis"]), ("kept", "keep", "prod_var", "local_api_cache_5", ["analysis", "store_inspect", "eval", "store_commit"]),
        ("helper", "data", "prod_callee", "local_api_cache_true", ["ANALYSIS"]), ("kept", "data", "prod_const", "local", ["analysis"]), ("top", "keep", "prod_const", "local_lru", [])])]
    for j, r in zip(pjobs, core.fork_map(c09.other_process_job, pjobs, timeout=900)):
        if isinstance(r, core.JobFailed):
            rep.inconclusive.append("restricted-run / other-process job: %r" % (r,))
        else:
            rep.merge(r)
    xjobs = [(stages, sk, producer, xi) for xi, (stages, sk, producer) in enumerate([(["analysis"], "memory", "data"), (["analysis", "store_inspect", "eval", "store_commit"], "memory", "keep"), (["analysis"], "local", "data"),
                                                                                   (["ANALYSIS", "STORE_INSPECT"], "local_lru", "keep"), (["analysis", "store_inspect", "eval"], "memory_lru", "data")])]
    results = core.fork_map(lambda j: {"o": orphan_job, "c": case_job, "d": dep_change_job, "g": lazy_attr_job, "s": samename_job, "x": graph_dry_job}[j[0]](j[1]),
                            [("c", j) for j in jobs] + [("o", j) for j in ojobs] + [("d", j) for j in djobs] + [("g", j) for j in gjobs] + [("s", j) for j in sjobs] + [("x", j) for j in xjobs], timeout=900)
    for j, r in zip(jobs + [None] * (len(ojobs) + len(djobs) + len(gjobs) + len(sjobs) + len(xjobs)), results):
        if isinstance(r, core.JobFailed):
            rep.inconclusive.append("case: %r" % (r,))
            continue
        rep.merge(r)
        if j is not None:
            rep.bump("prefix_length", j[3])
            rep.bump("store", j[4])
    rep.sample({"stages": jobs[5][2], "store": jobs[5][4], "populated": jobs[5][5]})
    rep.sample({"stages": jobs[-1][2], "store": jobs[-1][4], "populated": jobs[-1][5]})
    if rep.counters.get("dry_runs", 0) == 0:
        rep.inconclusive.append("no dry run observed")
    rep.assumptions = ["the path->signature map of a dry run is read through a harness wrapper on the internal FunctionInteractionsUtils.all_store_paths (hits counted)"]
    return rep


def replay(payload):
    rep = core.Report("C15")
    c = payload["case"]
    if c.get("other_process"):
        from checks import c09

        rep.merge(c09.other_process_job(tuple(c["other_process"])))
        return rep
    if c.get("graph_dry"):
        rep.merge(graph_dry_job((c["stages"], c["store"], c["producer"], c["idx"])))
        return rep
    if c.get("samename"):
        rep.merge(samename_job((c["stages"], c["store"], c["first"], c["idx"])))
        return rep
    if c.get("lazy_attr"):
        rep.merge(lazy_attr_job((c["stages"], c["store"], c["idx"])))
        return rep
    if c.get("dep_change"):
        rep.merge(dep_change_job((c["stages"], c["how"], c["store"], c["idx"])))
        return rep
    if c.get("orphan"):
        rep.merge(orphan_job((c["program"], c["stages"], len(c["stages"]), c["store"], c["same_process"])))
        return rep
    k = len(c["stages"])
    rep.merge(case_job((c["program"], c["edited"], c["stages"], k, c["store"], c["populated"], c["same_process"])))
    return rep
