"""
Pipelines of the C10 retry scenarios: user code that catches the exception of a kept call and calls it again
inside the same evaluation.  Lives in the accepted package `checks`.
"""
import dds
from vp import vlog



def always_fails(k, cls):
    vlog.hit("always_fails")
    raise vlog.make_exc_named("always_fails", cls, "boom from always_fails %d" % k)


def flaky(k, cls, nfail):
    vlog.hit("flaky")
    if vlog.events.count("flaky") <= nfail:
        raise vlog.make_exc_named("flaky", cls, "boom from flaky %d" % k)
    return ("value-of-flaky", k)


def good(k):
    vlog.hit("good")
    return ("value-of-good", k)


@dds.data_function("/c10r/df_fails")
def df_fails():
    vlog.hit("df_fails")
    raise vlog.make_exc("df_fails", ValueError, "boom from df_fails")


def _attempt(thunk, key):
    try:
        v = thunk()
        return ("returned", v)
    except BaseException as e:
        if e is vlog.raised.get(key):
            return ("raised-same-object", type(e).__name__)
        return ("raised-other", type(e).__name__, str(e)[:200])


def p_twice(k, cls, n):
    """n calls of the same always-failing kept call, each caught."""
    vlog.hit("p_twice")
    out = [_attempt(lambda: dds.keep("/c10r/always", always_fails, k, cls), "always_fails") for _ in range(n)]
    g = dds.keep("/c10r/good", good, k)
    return (out, g)


def p_df_twice(n):
    vlog.hit("p_df_twice")
    return [_attempt(lambda: df_fails(), "df_fails") for _ in range(n)]


def p_retry(k, cls, nfail):
    """retries a kept call that fails the first nfail times."""
    vlog.hit("p_retry")
    out = []
    for _ in range(nfail + 2):
        out.append(_attempt(lambda: dds.keep("/c10r/flaky", flaky, k, cls, nfail), "flaky"))
    return out


def p_fallback(k, cls):
    """the replacement of a failed kept call is computed (and kept) while the failure is still being handled."""
    vlog.hit("p_fallback")
    try:
        a = dds.keep("/c10r/always", always_fails, k, cls)
    except BaseException as e:
        same = e is vlog.raised.get("always_fails")
        a = ("fallback", same, dds.keep("/c10r/good", good, k))
    return a


def reader_of_always():
    vlog.hit("reader_of_always")
    return ("read", dds.load("/c10r/always"))


def p_load_after_caught_failure(k, cls):
    """the failure of a kept call is caught; later the same evaluation keeps a function that loads that call's path."""
    vlog.hit("p_load_after_caught_failure")
    try:
        dds.keep("/c10r/always", always_fails, k, cls)
    except BaseException:
        pass
    return dds.keep("/c10r/flaky", reader_of_always)


def p_good_only(k):
    vlog.hit("p_good_only")
    return ("good-only", dds.keep("/c10r/good", good, k))


def p_fails_only(k, cls):
    vlog.hit("p_fails_only")
    return dds.keep("/c10r/always", always_fails, k, cls)


# --- a failed evaluation whose sub-result completed, then another pipeline that only loads that path


def table_v1():
    vlog.hit("table_v1")
    return "table-v1"


def table_v2():
    vlog.hit("table_v2")
    return "table-v2"


def boom(cls):
    vlog.hit("boom")
    raise vlog.make_exc_named("boom", cls, "boom after the table was produced")


def p_table_ok():
    return dds.keep("/c10l/table", table_v1)


def p_table_then_fail(cls):
    t = dds.keep("/c10l/table", table_v2)
    b = dds.keep("/c10l/boom", boom, cls)
    return (t, b)


def p_loader():
    vlog.hit("p_loader")
    return ("loaded", dds.load("/c10l/table"))


def p_kept_loader():
    return dds.keep("/c10l/report", p_loader)


# --- a waiting function post-processes a completed sub-result in place and then fails


def rows_v1():
    vlog.hit("rows_v1")
    return [3, 1, 2]


def summarize(fail, cls):
    vlog.hit("summarize")
    rows = dds.keep("/c10m/rows", rows_v1)
    rows.sort()
    rows.append(sum(rows))
    if fail:
        raise vlog.make_exc_named("summarize", cls, "boom after the rows were post-processed")
    return rows


def p_mutating(fail, cls):
    return dds.keep("/c10m/summary", summarize, fail, cls)
