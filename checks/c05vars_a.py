BATCH = 1
OTHER = 0

# module-level constants spelled with double underscores (a version, an author, a seed) are ordinary variables
__version__ = 1
__SEED__ = "s"


def read_dunders():
    return ("dunders", __version__, __SEED__)
