"""
C11 - ill-formed evaluations are rejected before anything runs, whatever the order.

Monitor: error_code of the exception raised by dds.eval, the execution log of the generated
code, the calls recorded by a wrapping Store and a hash of the store's directory tree.
Oracle (ground truth from the generator): a kept path that is a strict prefix of another ->
OVERLAPPING_PATH; a cycle in the generated call graph -> CIRCULAR_CALL; dds.eval reachable
from the evaluated function -> EVAL_IN_EVAL; in all three nothing executed, nothing stored,
nothing committed, and the next evaluation in the same process works.
"""
import itertools

from vp import core, gen
from vp import storemodel as SM
from vp.worker import run_segment

BASE_PATHS = ["/" + "/".join(t) for n in (1, 2, 3) for t in itertools.product("ab", repeat=n)]
CONFUSERS = ["/ab", "/a/ab", "/ab/b", "/abb"]
PATHS = BASE_PATHS + CONFUSERS
PLACEMENTS = ["top", "helper", "child", "two_modules", "data", "method", "property"]


def overlapping(paths):
    sg = [SM.segs(p) for p in paths]
    for i, s in enumerate(sg):
        for j, t in enumerate(sg):
            if i != j and len(s) < len(t) and t[: len(s)] == s:
                return True
    return False


def prog_paths(pkg, paths, placement):
    p = gen.new_program(pkg)
    m0 = gen.add_module(p, "a0")
    m1 = gen.add_module(p, "a1") if placement == "two_modules" else m0
    n = len(paths)
    if placement == "data":
        fids = [gen.add_fn(p, m0, "k%d" % i, data_path=paths[i], const=i) for i in range(n)]
        main = gen.add_fn(p, m1, "main")
        p["fns"][main]["stmts"] = [gen.s_call(f, []) for f in fids]
    elif placement == "child":
        fids = [gen.add_fn(p, m0, "k%d" % i, const=i) for i in reversed(range(n))][::-1]
        # k0 keeps k1 keeps k2 ...
        for i in range(n - 1):
            p["fns"][fids[i]]["stmts"] = [gen.s_keep(paths[i + 1], fids[i + 1], [])]
        main = gen.add_fn(p, m1, "main")
        p["fns"][main]["stmts"] = [gen.s_keep(paths[0], fids[0], [])]
    else:
        fids = [gen.add_fn(p, m0, "k%d" % i, params=[("a", None)], const=i) for i in range(n)]
        keeps = [gen.s_keep(paths[i], fids[i], [gen.lit(str(i))]) for i in range(n)]
        if placement == "top":
            main = gen.add_fn(p, m1, "main")
            p["fns"][main]["stmts"] = keeps
        elif placement == "helper":
            h = gen.add_fn(p, m0, "helper")
            p["fns"][h]["stmts"] = keeps
            main = gen.add_fn(p, m1, "main")
            p["fns"][main]["stmts"] = [gen.s_call(h, [])]
        elif placement in ("method", "property"):
            # the first keep at top level, the others behind a method of a class (the method is not the first one of its class)
            h = gen.add_fn(p, m0, "helper")
            p["fns"][h]["stmts"] = keeps[1:]
            cid = gen.add_cls(p, m0, "Job", const=4, calls=h, prop=placement == "property")
            main = gen.add_fn(p, m1, "main")
            p["fns"][main]["stmts"] = keeps[:1] + ([gen.s_method(cid, "1")] if len(keeps) > 1 else [])
        else:  # two_modules: first keep in a helper of module a0, the rest in main of module a1
            h = gen.add_fn(p, m0, "helper")
            p["fns"][h]["stmts"] = keeps[:1]
            main = gen.add_fn(p, m1, "main")
            p["fns"][main]["stmts"] = [gen.s_call(h, [])] + keeps[1:]
    p["entry"] = main
    return p


EDGE_KINDS = ["call", "keep", "ref", "method"]


BUILTIN_NAMES = ["format", "filter", "map", "sorted"]


def localize(p, forms=False):
    """The same program with its imports written inside the function bodies: `import dds` in every function and,
    with forms=True, sibling modules imported by `import pkg.mod` inside the caller."""
    for f in p["fns"].values():
        f["local_dds"] = True
    if forms:
        for a in p["modules"]:
            for b in p["modules"]:
                if a != b:
                    p["imports"][a + "->" + b] = "local_import_full"
    return p


def dotted(p):
    """The same program with its modules accepted one by one (the package itself is not accepted) and sibling modules
    used through `import pkg.mod` and the full dotted name."""
    for a in p["modules"]:
        for b in p["modules"]:
            if a != b:
                p["imports"][a + "->" + b] = "import_full"
    p["_accept_modules"] = True
    return p


def prog_cycle(pkg, edges, two_modules=False, builtin_names=False):
    """f0 -e0-> f1 -e1-> ... -> f0 ; main -> f0 (main is outside the cycle unless len(edges)==... )"""
    p = gen.new_program(pkg)
    m0 = gen.add_module(p, "c0")
    n = len(edges)
    if two_modules:
        # functions alternate between two modules that import each other inside function bodies only
        m1 = gen.add_module(p, "c1")
        fids = [gen.add_fn(p, (m0, m1)[i % 2], "cy%d" % i, const=i) for i in range(n)]
    else:
        fids = [gen.add_fn(p, m0, (BUILTIN_NAMES[i] if builtin_names else "cy%d" % i), const=i) for i in range(n)]
    for i, e in enumerate(edges):
        tgt = fids[(i + 1) % n]
        f = p["fns"][fids[i]]
        if e == "call":
            f["stmts"] = [gen.s_call(tgt, [])]
        elif e == "keep":
            f["stmts"] = [gen.s_keep("/cyc%d" % i, tgt, [])]
        elif e == "ref":
            f["stmts"] = [gen.s_ref(tgt)]
        else:
            cid = gen.add_cls(p, m0, "Kc%d" % i, const=i, calls=tgt, prop=e == "property")
            f["stmts"] = [gen.s_method(cid, "1")]
    main = gen.add_fn(p, m0, "main")
    p["fns"][main]["stmts"] = [gen.s_call(fids[0], [])]
    p["entry"] = main
    p["_cycle_entry"] = fids[0]
    return p


def prog_eval_in_eval(pkg, depth, via, spelling="dds.eval", two_modules=False):
    """main -> d1 -> ... -> d<depth> which calls dds.eval(inner) (or eval(inner) after `from dds import eval`)."""
    p = gen.new_program(pkg)
    if two_modules:
        # the function with the nested eval (and its target) live in a module of their own, imported by the other one
        m1 = gen.add_module(p, "e1")
        m0 = gen.add_module(p, "e0")
        inner = gen.add_fn(p, m1, "inner", const=5)
        chain = [gen.add_fn(p, m1 if i == depth else m0, "d%d" % i, const=i) for i in reversed(range(depth + 1))][::-1]
    else:
        m0 = gen.add_module(p, "e0")
        inner = gen.add_fn(p, m0, "inner", const=5)
        chain = [gen.add_fn(p, m0, "d%d" % i, const=i) for i in range(depth + 1)]
    # deepest function contains the nested eval: rendered through a special statement
    p["fns"][chain[-1]]["stmts"] = [{"k": "nested_eval", "fn": inner, "spelling": spelling}]
    for i in range(depth):
        f = p["fns"][chain[i]]
        tgt = chain[i + 1]
        if via == "call":
            f["stmts"] = [gen.s_call(tgt, [])]
        elif via == "keep":
            f["stmts"] = [gen.s_keep("/ev%d" % i, tgt, [])]
        else:
            cid = gen.add_cls(p, m0, "Ke%d" % i, const=i, calls=tgt, prop=via == "property")
            f["stmts"] = [gen.s_method(cid, "1")]
    p["entry"] = chain[0]
    return p


def prog_redefined(pkg, kind, order):
    """The "redefine and extend" idiom: a function is defined, kept reachable under another name (_base_step = step) and
    defined again under its own name; the second definition calls the first one and holds the offending call.  The
    entry reaches the two definitions in the given order."""
    offending = {"cycle": "    x1 = main()", "eval-in-eval": "    x1 = dds.eval(leaf)", "overlap": "    x1 = dds.keep(\"/rd/%s/a/b\", leaf)" % pkg}[kind]
    first = "    y0 = _base_step()\n    y1 = step()" if order == "old-first" else "    y1 = step()\n    y0 = _base_step()"
    text = (
        "import dds\nfrom vp import vlog\n\n\ndef leaf():\n    vlog.hit('leaf')\n    return ('leaf', 1)\n\n\ndef step():\n    vlog.hit('step-old')\n    return ('old', dds.keep(\"/rd/%s/a\", leaf))\n\n\n"
        "_base_step = step\n\n\ndef step():\n    vlog.hit('step-new')\n    x0 = _base_step()\n%s\n    return ('new', x0, x1)\n\n\ndef main():\n    vlog.hit('main')\n%s\n    return ('main', y0, y1)\n" % (pkg, offending, first)
    )
    return {"pkg": pkg, "modules": ["rd"], "_raw_files": {pkg + "/__init__.py": "# pkg\n", pkg + "/rd.py": text}, "_entry": ("rd", "main")}


def control_program(pkg):
    p = gen.new_program(pkg)
    m0 = gen.add_module(p, "ok0")
    k = gen.add_fn(p, m0, "okk", params=[("a", None)], const=3)
    main = gen.add_fn(p, m0, "main")
    p["fns"][main]["stmts"] = [gen.s_keep("/control/x", k, [gen.lit("1")])]
    p["entry"] = main
    return p


STAGE_LISTS = [["analysis"], ["analysis", "store_inspect"], ["analysis", "store_inspect", "eval"], ["analysis", "store_inspect", "eval", "store_commit"], ["ANALYSIS", "STORE_INSPECT", "EVAL"]]


def _step(p, style="eval", stages=None):
    if p.get("_raw_files"):
        # a program written out by hand (constructs the generator has no notation for)
        ent = {"style": style, "module": p["pkg"] + "." + p["_entry"][0], "func": p["_entry"][1], "args_src": "()"}
        if stages is not None:
            ent["options"] = {"dds_stages": stages}
        return {"write": p["_raw_files"], "how": "import", "modules": [p["pkg"] + "." + p["_entry"][0]], "entry": ent}
    f = p["fns"][p["entry"]]
    ent = {"style": style, "module": gen.modname(p, f["module"]), "func": f["name"], "args_src": "()"}
    if stages is not None:
        ent["options"] = {"dds_stages": stages}
    return {"write": gen.render(p), "how": "import", "modules": gen.import_order(p), "entry": ent}


def batch_job(arg):
    store_kind, cases = arg
    rep = core.Report("C11")
    with core.Scratch("vp_c11_") as td:
        import os

        root = os.path.join(td, "code")
        os.makedirs(root)
        steps = []
        accept = []
        for (cid, kind, expect, p, desc) in cases:
            accept += [gen.modname(p, m) for m in p["modules"]] if p.get("_accept_modules") else [p["pkg"]]
            steps.append(_step(p, style=desc.get("entry_style", "eval"), stages=desc.get("stages")))
            ctl = control_program(p["pkg"] + "_ctl")
            accept.append(ctl["pkg"])
            steps.append(_step(ctl))
        seg = {"mode": "impl", "root": root, "accept": accept, "steps": steps, "store": {"kind": store_kind, "dir": os.path.join(td, "store")}, "tree_hash": store_kind != "memory"}
        out = core.fork_call(run_segment, seg, timeout=900)
    if isinstance(out, core.JobFailed):
        rep.inconclusive.append("batch worker: %r" % (out,))
        return rep
    prev_tree = None
    for i, (cid, kind, expect, p, desc) in enumerate(cases):
        so, ctl = out["steps"][2 * i], out["steps"][2 * i + 1]
        rep.evaluations += 1
        if "setup_error" in so:
            rep.inconclusive.append("setup error %s" % so["setup_error"][-300:])
            continue
        r = so["result"]
        case = {"kind": kind, "desc": desc, "store": store_kind, "program": p}
        feat = dict(desc)
        if expect is None:
            rep.count("controls_wellformed")
            if r[0] != "ok":
                rep.violate("%s %r: well-formed evaluation raised %s(%s) code=%s" % (kind, desc, r[1], r[2][:150], r[3]), case, mechanism="wellformed-rejected", features=feat)
        else:
            rep.count("illformed_" + kind)
            if r[0] == "ok" or r[3] != expect:
                got = "returned a value" if r[0] == "ok" else "%s(%s) code=%s" % (r[1], r[2][:120], r[3])
                rep.violate("%s %r on %s: expected DDS error %s, %s" % (kind, desc, store_kind, expect, got), case, mechanism=_mech(kind, desc), features=feat)
            else:
                rep.nontriv(("c11", kind, repr(sorted(desc.items()))))
            if so["log"]:
                rep.violate("%s %r: user functions ran although the evaluation is ill-formed: %r" % (kind, desc, so["log"][:5]), case, mechanism=_mech(kind, desc), features=feat)
            if so["stored"] or so["sync_begun"]:
                rep.violate("%s %r: store was written (blobs %d, path commits %d) by a rejected evaluation" % (kind, desc, len(so["stored"]), so["sync_begun"]), case, mechanism=_mech(kind, desc), features=feat)
            if so.get("tree") is not None and prev_tree is not None and so["tree"] != prev_tree:
                rep.violate("%s %r: store directory changed during a rejected evaluation" % (kind, desc), case, mechanism=_mech(kind, desc), features=feat)
            if so.get("eval_ctx_clean") is False:
                rep.violate("%s %r: evaluation context left set after the rejection" % (kind, desc), case, mechanism="context-not-reset", features=feat)
        # the control right after must work
        rep.count("followup_evaluations")
        cr = ctl.get("result")
        if not cr or cr[0] != "ok":
            rep.violate("evaluation following %s %r failed: %r" % (kind, desc, cr and cr[1:4]), case, mechanism="followup-failed", features=feat)
        prev_tree = ctl.get("tree")
    return rep


def _mech(kind, desc):
    if kind == "overlap" and not desc.get("adjacent"):
        return "overlap-not-adjacent"
    if kind == "cycle" and desc.get("edges") == ["ref"] and "names" not in desc:
        return "self-reference-through-higher-order"
    if kind == "cycle" and desc.get("names") == "builtin-like" and "ref" in desc.get("edges", []):
        return "reference-to-builtin-named-function-ignored"
    return None


def _hi(x):
    import hashlib

    return int(hashlib.md5(repr(x).encode()).hexdigest()[:8], 16)


def build_cases(tier, seed):
    rng = core.rng_for(seed, "c11")
    cases = []
    n = [0]

    def add(kind, expect, p, desc):
        n[0] += 1
        cases.append((n[0], kind, expect, p, desc))

    # ---- path sets
    sets = []
    for k in (1, 2, 3):
        for t in itertools.permutations(PATHS, k):
            sets.append(t)
    quad = []
    for t in itertools.combinations(PATHS, 4):
        quad.append(t)
    rng.shuffle(quad)
    for t in quad[: (60 if tier == "quick" else 2000)]:
        t = list(t)
        rng.shuffle(t)
        sets.append(tuple(t))
    for t in sets:
        ov = overlapping(t)
        if tier == "quick":
            # every ordered pair and triple at top level; other placements for a rotating third
            pls = ["top"] + [pl for pl in PLACEMENTS[1:] if (_hi(t) + len(pl) + seed) % 6 == 0 or (ov and len(t) == 3 and (_hi(t) + seed) % 5 == 0 and pl == "child")]
        else:
            pls = PLACEMENTS
        for pl in pls:
            if pl == "child" and len(t) < 2:
                continue
            sg = [SM.segs(x) for x in t]
            adjacent = any((len(sg[i]) != len(sg[i + 1])) and (sg[i][: min(len(sg[i]), len(sg[i + 1]))] == sg[i + 1][: min(len(sg[i]), len(sg[i + 1]))]) for i in range(len(sg) - 1))
            # a per-case leading segment keeps the cases of one batch (one store) independent of each other
            pref = "/case%d" % (n[0] + 1)
            add("overlap" if ov else "paths-ok", "OVERLAPPING_PATH" if ov else None, prog_paths("o%d" % n[0], [pref + x for x in t], pl), {"paths": list(t), "placement": pl, "adjacent": adjacent})
            if pl == "two_modules":
                pref = "/case%d" % (n[0] + 1)
                add("overlap" if ov else "paths-ok", "OVERLAPPING_PATH" if ov else None, dotted(prog_paths("o%d" % n[0], [pref + x for x in t], pl)),
                    {"paths": list(t), "placement": pl, "adjacent": adjacent, "accepted": "modules-only"})
            if pl != "data" and (tier != "quick" or (_hi(t) + seed) % 5 == 0 or pl == "two_modules"):
                pref = "/case%d" % (n[0] + 1)
                add("overlap" if ov else "paths-ok", "OVERLAPPING_PATH" if ov else None, localize(prog_paths("o%d" % n[0], [pref + x for x in t], pl), forms=True),
                    {"paths": list(t), "placement": pl, "adjacent": adjacent, "imports": "function-local"})
    # ---- cycles
    for ln in (1, 2, 3, 4):
        for edges in itertools.product(EDGE_KINDS, repeat=ln):
            if tier == "quick" and ln == 4 and (_hi(edges) + seed) % 4 != 0:
                continue
            add("cycle", "CIRCULAR_CALL", prog_cycle("y%d" % n[0], list(edges)), {"edges": list(edges)})
            if ln <= 3 or tier != "quick":
                add("cycle", "CIRCULAR_CALL", prog_cycle("y%d" % n[0], list(edges), builtin_names=True), {"edges": list(edges), "names": "builtin-like"})
                add("cycle", "CIRCULAR_CALL", localize(prog_cycle("y%d" % n[0], list(edges))), {"edges": list(edges), "imports": "function-local"})
        # ... with one edge through a property that also has a setter (two functions of one name in the class body)
        if ln <= 3:
            for pos in range(ln):
                edges = ["call"] * ln
                edges[pos] = "property"
                add("cycle", "CIRCULAR_CALL", prog_cycle("y%d" % n[0], edges), {"edges": edges})
        # ... and through two modules accepted one by one (their package is not), spelled by full dotted names
        add("cycle", "CIRCULAR_CALL", dotted(prog_cycle("y%d" % n[0], ["call"] * ln, two_modules=True)), {"edges": ["call"] * ln, "accepted": "modules-only", "modules": 2})
        # a cycle of plain calls through two modules that import each other inside the function bodies
        add("cycle", "CIRCULAR_CALL", localize(prog_cycle("y%d" % n[0], ["call"] * ln, two_modules=True), forms=True), {"edges": ["call"] * ln, "imports": "function-local", "modules": 2})
    # ---- the evaluation is entered by calling a data function directly (its decorator starts the evaluation)
    def as_data_entry(p):
        p["fns"][p["entry"]]["data_path"] = "/entry/%s" % p["pkg"]
        return p

    for edges in (["call"], ["call", "keep"], ["keep", "call", "method"]):
        add("cycle", "CIRCULAR_CALL", as_data_entry(prog_cycle("y%d" % n[0], list(edges))), {"edges": list(edges), "entry_style": "call", "entry": "data function called directly"})
    for depth, via in ((0, "call"), (2, "call"), (1, "keep")):
        add("eval-in-eval", "EVAL_IN_EVAL", as_data_entry(prog_eval_in_eval("v%d" % n[0], depth, via)), {"depth": depth, "via": via, "entry_style": "call", "entry": "data function called directly"})
    for t in (("/a", "/a/b"), ("/a/b/a", "/b", "/a/b")):
        pref = "/case%d" % (n[0] + 1)
        add("overlap", "OVERLAPPING_PATH", as_data_entry(prog_paths("o%d" % n[0], [pref + x for x in t], "top")), {"paths": list(t), "placement": "top", "adjacent": True, "entry_style": "call", "entry": "data function called directly"})
    # ---- the offending call sits in the second definition of a function that was defined twice under one name
    for kind, code in (("cycle", "CIRCULAR_CALL"), ("eval-in-eval", "EVAL_IN_EVAL"), ("overlap", "OVERLAPPING_PATH")):
        for order in ("old-first", "new-first"):
            add(kind, code, prog_redefined("rd%d" % n[0], kind, order), {"redefined": True, "reached": order, "adjacent": True})
    # ---- eval in eval
    for depth in range(0, 5):
        for via in ("call", "keep", "method", "property"):
            add("eval-in-eval", "EVAL_IN_EVAL", prog_eval_in_eval("v%d" % n[0], depth, via), {"depth": depth, "via": via})
            add("eval-in-eval", "EVAL_IN_EVAL", prog_eval_in_eval("v%d" % n[0], depth, via, "eval"), {"depth": depth, "via": via, "spelling": "from dds import eval"})
            add("eval-in-eval", "EVAL_IN_EVAL", localize(prog_eval_in_eval("v%d" % n[0], depth, via)), {"depth": depth, "via": via, "imports": "function-local"})
            if depth >= 1 and via in ("call", "keep"):
                add("eval-in-eval", "EVAL_IN_EVAL", dotted(prog_eval_in_eval("v%d" % n[0], depth, via, two_modules=True)), {"depth": depth, "via": via, "accepted": "modules-only", "modules": 2})
    # the same ill-formed evaluations restricted to a prefix of the stages (dds_stages): still rejected, nothing runs
    extra = []
    ill = [c for c in cases if c[2] is not None and "stages" not in c[4] and not c[3].get("_raw_files")]
    for j, (cid, kind, expect, p, desc) in enumerate(ill):
        if tier == "quick" and (_hi((kind, repr(sorted(desc.items(), key=str)))) + seed) % 9 != 0 and not (kind != "overlap" and j % 3 == 0):
            continue
        n[0] += 1
        q = gen.clone(p)
        q["pkg"] = p["pkg"] + "s"
        d2 = dict(desc, stages=STAGE_LISTS[j % len(STAGE_LISTS)])
        extra.append((n[0], kind, expect, q, d2))
    return cases + extra


def run(tier, seed):
    rep = core.Report("C11")
    rep.rule = (
        "overlap: every ordered set of 1-3 paths (and sampled sets of 4) over %d paths (all paths of <=3 segments on {a,b} plus the confusers %r), keeps placed at top level / in a helper / nested in kept children / "
        "split over two modules / as data functions; cycles: every cycle of length 1-4 with each edge a plain call, a keep, a higher-order reference or a method call; dds.eval nested at depth 0-4 behind calls, keeps "
        "and methods; variants restricted to a prefix of the stages (dds_stages), variants in two modules accepted one by one (their package is not accepted) and used through full dotted names, variants with the imports (of dds, of sibling modules) written inside the function bodies; each ill-formed evaluation is followed by a well-formed one in the same process. Ground truth (strict-prefix relation, generated call graph) decides the expected code. "
        "distinct_nontrivial = distinct ill-formed cases that were rejected with the expected code." % (len(PATHS), CONFUSERS)
    )
    cases = build_cases(tier, seed)
    jobs = []
    B = 40
    for i in range(0, len(cases), B):
        jobs.append(("memory" if (i // B) % 3 else "local", cases[i : i + B]))
    results = core.fork_map(batch_job, jobs, timeout=1200)
    for j, r in zip(jobs, results):
        if isinstance(r, core.JobFailed):
            rep.inconclusive.append("batch: %r" % (r,))
            continue
        rep.merge(r)
    rep.sample({"overlap_case": cases[40][4], "expected": cases[40][2]})
    rep.sample({"cycle_case": [c[4] for c in cases if c[1] == "cycle"][5]})
    rep.assumptions = ["offending calls are in accepted modules (code hidden in non-accepted modules is invisible to analysis by design)"]
    return rep


def replay(payload):
    rep = core.Report("C11")
    c = payload["case"]
    kind = c["kind"]
    expect = {"overlap": "OVERLAPPING_PATH", "cycle": "CIRCULAR_CALL", "eval-in-eval": "EVAL_IN_EVAL"}.get(kind)
    rep.merge(batch_job((c["store"], [(0, kind, expect, c["program"], c["desc"])])))
    return rep
