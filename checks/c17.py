"""
C17 - results are read back with the codec that wrote them, text and bytes verbatim.

Monitor: value and type returned by dds.keep / dds.load / Store.fetch_blob; the protocol
recorded in the blob's .meta at write time; the codec object whose deserialize_from ran at
read time (every registered codec instance is wrapped by a recording proxy); raw bytes of the
blob file and of <data_dir>/<path>.
"""
import enum
import json
import os
import pickle

from vp import core
from vp import storemodel as SM


class UserA(object):
    def __init__(self, x):
        self.x = x

    def __eq__(self, o):
        return isinstance(o, UserA) and o.x == self.x


class UserB(object):
    def __init__(self, x):
        self.x = x

    def __eq__(self, o):
        return isinstance(o, UserB) and o.x == self.x


_DBFS_ROOT = [None]


def _open_loc(loc, mode):
    """A CodecProtocol gets the store's own location type: a local path for the local store, a
    dbfs: URI for the DBFS store (resolved here the way the fake dbutils lays it out)."""
    s = str(loc)
    if s.startswith("dbfs:"):
        s = os.path.join(_DBFS_ROOT[0], "dbfs", s[5:].lstrip("/"))
        if "w" in mode:
            os.makedirs(os.path.dirname(s), exist_ok=True)
    return open(s, mode)


def _mk_codecs():
    from dds.structures import FileCodecProtocol, CodecProtocol, ProtocolRef, SupportedType

    class UserAFileCodec(FileCodecProtocol):
        def ref(self):
            return ProtocolRef("user.a_file")

        def handled_types(self):
            return [SupportedType("checks.c17.UserA")]

        def serialize_into(self, blob, loc):
            with open(str(loc), "wb") as f:
                f.write(b"USERA:" + repr(blob.x).encode("utf-8"))

        def deserialize_from(self, loc):
            with open(str(loc), "rb") as f:
                d = f.read()
            assert d.startswith(b"USERA:"), d[:20]
            return UserA(eval(d[6:].decode("utf-8")))

    class UserBCodec(CodecProtocol):
        def ref(self):
            return ProtocolRef("user.b_generic")

        def handled_types(self):
            return [SupportedType("checks.c17.UserB")]

        def serialize_into(self, blob, loc):
            with _open_loc(loc, "wb") as f:
                f.write(b"USERB:" + repr(blob.x).encode("utf-8"))

        def deserialize_from(self, loc):
            with _open_loc(loc, "rb") as f:
                d = f.read()
            assert d.startswith(b"USERB:"), d[:20]
            return UserB(eval(d[6:].decode("utf-8")))

    class GreedyFileCodec(FileCodecProtocol):
        """A later-registered file codec that claims the built-in types under a new ref."""

        def ref(self):
            return ProtocolRef("user.greedy_file")

        def handled_types(self):
            return [SupportedType(t) for t in ("str", "bytes", "NoneType", "object", "int", "checks.c17.UserA")]

        def serialize_into(self, blob, loc):
            with open(str(loc), "wb") as f:
                f.write(b"GREEDYF" + pickle.dumps(blob))

        def deserialize_from(self, loc):
            with open(str(loc), "rb") as f:
                d = f.read()
            assert d.startswith(b"GREEDYF"), d[:20]
            return pickle.loads(d[7:])

    class GreedyCodec(CodecProtocol):
        """A later-registered (higher priority) codec that claims the built-in types under a new ref."""

        def ref(self):
            return ProtocolRef("user.greedy")

        def handled_types(self):
            return [SupportedType(t) for t in ("str", "bytes", "NoneType", "object", "int", "checks.c17.UserA", "checks.c17.UserB")]

        def serialize_into(self, blob, loc):
            with _open_loc(loc, "wb") as f:
                f.write(b"GREEDYC" + pickle.dumps(blob))

        def deserialize_from(self, loc):
            with _open_loc(loc, "rb") as f:
                d = f.read()
            assert d.startswith(b"GREEDYC"), d[:20]
            return pickle.loads(d[7:])

    return UserAFileCodec, UserBCodec, GreedyFileCodec, GreedyCodec


TAGS = ["str_ascii", "str_empty", "str_nonascii", "str_newlines", "str_bom", "str_big", "bytes_plain", "bytes_empty", "bytes_all", "bytes_big",
        "none", "int", "float", "nested", "obj", "bool", "frame0", "frame1", "frame_labels", "frame_named_index", "frame_odd_names", "user_a", "user_b", "str_subclass", "str_enum", "bytes_subclass"]


def value(tag):
    if tag == "user_a":
        return UserA([1, "é"])
    if tag == "user_b":
        return UserB({"k": (1, 2)})
    if tag in ("str_subclass", "str_enum", "bytes_subclass"):
        # (built in the untracked module: dds documents classes with base classes as outside its supported subset)
        return SM.result_value(tag)
    return SM.result_value(tag)


def produce(tag):
    return value(tag)


def produce2(tag):
    return ("v2", value(tag))


SCENARIOS = ["none", "add_file_codec_same_types", "add_codec_same_types", "reregister_builtins_reversed", "both_greedy"]

_reads = []


def _wrap_registry(reg):
    """Recording proxies on every registered codec instance (idempotent)."""
    for ref, inst in list(reg._protocols.items()):
        if getattr(inst, "_vp_wrapped", False):
            continue
        orig = inst.deserialize_from

        def rec(loc, _orig=orig, _inst=inst):
            _reads.append(str(_inst.ref()))
            return _orig(loc)

        try:
            inst.deserialize_from = rec
            inst._vp_wrapped = True
        except AttributeError:
            pass


def _apply_scenario(reg, sc):
    from dds.codecs.builtins import StringLocalFileCodec, PickleLocalFileCodec, BytesFileCodec
    from dds.codecs.pandas import PandasFileCodec

    UserAFileCodec, UserBCodec, GreedyFileCodec, GreedyCodec = _mk_codecs()
    if sc == "add_file_codec_same_types":
        reg.add_file_codec(GreedyFileCodec())
    elif sc == "add_codec_same_types":
        reg.add_codec(GreedyCodec())
    elif sc == "reregister_builtins_reversed":
        for c in (PandasFileCodec(), PickleLocalFileCodec(), BytesFileCodec(), StringLocalFileCodec()):
            reg.add_file_codec(c)
    elif sc == "both_greedy":
        reg.add_file_codec(GreedyFileCodec())
        reg.add_codec(GreedyCodec())


def _set_store(kind, root):
    import dds

    if kind == "local":
        dds.set_store("local", internal_dir=os.path.join(root, "internal"), data_dir=os.path.join(root, "data"))
    elif kind == "local_lru":
        dds.set_store("local", internal_dir=os.path.join(root, "internal"), data_dir=os.path.join(root, "data"), cache_objects=2)
    elif kind in ("dbfs", "dbfs_lru"):
        from vp.fakedbutils import FakeDbutils

        _DBFS_ROOT[0] = root
        dds.set_store("dbfs", internal_dir="dbfs:/internal", data_dir="dbfs:/data", dbutils=FakeDbutils(root), cache_objects=(2 if kind == "dbfs_lru" else None))
    elif kind == "memory":
        dds.set_store("memory")
    from dds import _api

    st = _api._store()
    return st


def _registry_of(st):
    return st.codec_registry()


def _read_all(arg):
    """Other process: optionally register extra codecs first, then load every path."""
    kind, root, sc, paths, user_first = arg
    import dds

    dds.accept_module("checks")
    UserAFileCodec, UserBCodec, _, _ = _mk_codecs()
    st = _set_store(kind, root)
    reg = _registry_of(st)
    if user_first:
        _apply_scenario(reg, sc)
    reg.add_file_codec(UserAFileCodec())
    reg.add_codec(UserBCodec())
    if not user_first:
        _apply_scenario(reg, sc)
    _wrap_registry(reg)
    out = {}
    for p in paths:
        del _reads[:]
        try:
            v = dds.load(p)
            out[p] = ("ok", pickle.dumps(v), list(_reads))
        except BaseException as e:
            out[p] = ("exc", "%s: %s" % (type(e).__name__, str(e)[:150]), list(_reads))
    return out


def job(arg):
    kind, sc, tags = arg
    import dds

    rep = core.Report("C17")
    dds.accept_module("checks")
    UserAFileCodec, UserBCodec, _, _ = _mk_codecs()
    with core.Scratch("vp_c17_") as root:
        st = _set_store(kind, root)
        reg = _registry_of(st)
        reg.add_file_codec(UserAFileCodec())
        reg.add_codec(UserBCodec())
        _wrap_registry(reg)
        written = {}  # path -> (tag, value, ref at write time, key)
        case = {"kind": kind, "scenario": sc, "tags": tags}

        applied = [False]

        def keep_one(path, fn, tag):
            exp = fn(tag)
            rep.evaluations += 1
            try:
                v = dds.keep(path, fn, tag)
            except BaseException as e:
                rep.violate("%s/%s: keep(%r, %s) raised %s: %s" % (kind, sc, path, tag, type(e).__name__, str(e)[:150]), case, mechanism="keep-raised")
                return
            if not SM.values_equal(v, exp):
                rep.violate("%s/%s: keep(%r) returned %r" % (kind, sc, path, repr(v)[:80]), case, mechanism="keep-wrong-value")
            ref = key = None
            if kind in ("local", "local_lru"):
                lk = os.path.join(root, "data", path.lstrip("/"))
                blob = os.path.realpath(lk)
                key = os.path.basename(blob)
                ref = json.load(open(blob + ".meta"))["protocol"]
                raw = open(blob, "rb").read() if os.path.isfile(blob) else None
                raw2 = open(lk, "rb").read() if os.path.isfile(lk) else None
                base = exp
                if type(base) is str:
                    rep.count("verbatim_text_checks")
                    if ref.startswith("local.") and (raw != base.encode("utf-8") or raw2 != raw):
                        rep.violate("%s/%s: str result at %r is not stored as its UTF-8 bytes" % (kind, sc, path), case, mechanism="text-not-verbatim")
                if type(base) in (bytes, bytearray):
                    rep.count("verbatim_bytes_checks")
                    if ref.startswith("local.") and (raw != bytes(base) or raw2 != raw):
                        rep.violate("%s/%s: bytes result at %r is not stored verbatim" % (kind, sc, path), case, mechanism="bytes-not-verbatim")
            elif kind in ("dbfs", "dbfs_lru"):
                rec = os.path.join(root, "dbfs", "data", "_dds_meta", path.lstrip("/"))
                key = json.load(open(rec))["redirection_key"]
                ref = json.load(open(os.path.join(root, "dbfs", "internal", "blobs", key + ".meta")))["protocol"]
                obj = os.path.join(root, "dbfs", "data", path.lstrip("/"))
                if type(exp) is str and os.path.isfile(obj):
                    rep.count("verbatim_text_checks")
                    if ref.startswith("local.") and open(obj, "rb").read() != exp.encode("utf-8"):
                        rep.violate("%s/%s: str result at %r is not stored as its UTF-8 bytes" % (kind, sc, path), case, mechanism="text-not-verbatim")
                if type(exp) in (bytes, bytearray) and os.path.isfile(obj):
                    rep.count("verbatim_bytes_checks")
                    if ref.startswith("local.") and open(obj, "rb").read() != bytes(exp):
                        rep.violate("%s/%s: bytes result at %r is not stored verbatim" % (kind, sc, path), case, mechanism="bytes-not-verbatim")
            if tag in ("user_a", "user_b") and ref is not None and isinstance(exp, (UserA, UserB)):
                # a type with a user-registered codec is written by that codec (or by one registered later for the same type)
                allowed = {"user_a": {"user.a_file"}, "user_b": {"user.b_generic"}}[tag] | ({"user.greedy_file", "user.greedy"} if applied[0] else set())
                rep.count("user_codec_write_checks")
                if ref not in allowed:
                    rep.violate("%s/%s: a %s value was written with codec %s although the codec %s is registered for its type through the store's registry" % (kind, sc, tag, ref, sorted(allowed)[0]),
                                case, mechanism="user-codec-not-used")
            written[path] = (tag, exp, ref, key)

        def check_reads(label, getter):
            for path, (tag, exp, ref, key) in written.items():
                del _reads[:]
                try:
                    v = getter(path, key)
                except BaseException as e:
                    rep.violate("%s/%s [%s]: reading %r (%s, written with %s) raised %s: %s" % (kind, sc, label, path, tag, ref, type(e).__name__, str(e)[:150]), case, mechanism="read-raised")
                    continue
                rep.count("reads_checked")
                if not SM.values_equal(v, exp) and not (isinstance(exp, bytearray) and v == bytes(exp)):
                    rep.violate("%s/%s [%s]: %r (%s) read back as %s" % (kind, sc, label, path, tag, repr(v)[:80]), case, mechanism="read-wrong-value")
                if ref is not None and _reads:
                    rep.count("decoder_identity_checks")
                    if _reads[-1] != ref:
                        rep.violate("%s/%s [%s]: %r written with codec %s but decoded by %s" % (kind, sc, label, path, ref, _reads[-1]), case, mechanism="decoded-by-other-codec")

        # phase 1: write half of the values, apply the scenario, write the other half + re-keep
        half = len(tags) // 2
        for i, tag in enumerate(tags[:half]):
            keep_one("/c17/%s" % tag, produce, tag)
        check_reads("before", lambda p, k: dds.load(p))
        _apply_scenario(reg, sc)
        applied[0] = sc != "none"
        _wrap_registry(reg)
        check_reads("after-registration", lambda p, k: dds.load(p))
        for i, tag in enumerate(tags[half:]):
            keep_one("/c17/%s" % tag, produce, tag)
        for tag in tags[:2]:
            keep_one("/c17/%s" % tag, produce2, tag)
        check_reads("after-more-writes", lambda p, k: dds.load(p))
        if kind in ("local", "local_lru"):
            # the state a killed writer leaves (blob in place, metadata never written), then the same call again while the
            # codec selection may have changed through the registrations above: whatever codec writes now, the blob and
            # its metadata must agree afterwards
            redo = [p_ for p_ in sorted(written) if written[p_][0] not in tags[:2]][:6]
            for path in redo:
                tag, exp, ref, key = written[path]
                mp = os.path.join(root, "internal", "blobs", key + ".meta")
                if os.path.exists(mp):
                    os.remove(mp)
                    rep.count("metadata_removed_then_rewritten")
            st_new = _set_store(kind, root)  # a new store object: nothing cached in memory
            rn = _registry_of(st_new)
            rn.add_file_codec(UserAFileCodec())
            rn.add_codec(UserBCodec())
            _apply_scenario(rn, sc)
            _wrap_registry(rn)
            for path in redo:
                keep_one(path, produce, written[path][0])
            check_reads("after-rewrite-of-blobs-without-metadata", lambda p, k: dds.load(p))
        if kind != "memory":
            # store-level fetch by key through a brand-new store object
            st2 = _set_store(kind, root)
            if kind in ("dbfs", "dbfs_lru"):
                r2 = _registry_of(st2)
                r2.add_file_codec(UserAFileCodec())
                r2.add_codec(UserBCodec())
                _apply_scenario(r2, sc)
                _wrap_registry(r2)
            check_reads("new-store-object", lambda p, k: st2.fetch_blob(k))
            # another process, extra codecs registered before / after the user codecs
            for user_first in (True, False):
                res = core.fork_call(_read_all, (kind, root, sc, list(written), user_first), timeout=300)
                if isinstance(res, core.JobFailed):
                    rep.inconclusive.append("reader process: %r" % (res,))
                    continue
                for path, (tag, exp, ref, key) in written.items():
                    st_, payload, reads = res[path]
                    rep.count("reads_checked_other_process")
                    if st_ != "ok":
                        rep.violate("%s/%s [other process]: reading %r (%s) raised %s" % (kind, sc, path, tag, payload), case, mechanism="read-raised")
                        continue
                    v = pickle.loads(payload)
                    if not SM.values_equal(v, exp):
                        rep.violate("%s/%s [other process]: %r (%s) read back as %s" % (kind, sc, path, tag, repr(v)[:80]), case, mechanism="read-wrong-value")
                    if ref is not None and reads and reads[-1] != ref:
                        rep.violate("%s/%s [other process]: %r written with codec %s but decoded by %s" % (kind, sc, path, ref, reads[-1]), case, mechanism="decoded-by-other-codec")
        # a frame written by an older version of the library names the codec 'default.pandas_local'
        if kind == "local" and "/c17/frame0" in written and written["/c17/frame0"][2] == "local.pandas":
            key = written["/c17/frame0"][3]
            metap = os.path.join(root, "internal", "blobs", key + ".meta")
            meta = json.load(open(metap))
            meta["protocol"] = "default.pandas_local"
            with open(metap, "w") as f:
                json.dump(meta, f)
            try:
                v = _set_store(kind, root).fetch_blob(key)
                rep.count("legacy_pandas_reads")
                if not SM.values_equal(v, written["/c17/frame0"][1]):
                    rep.violate("local/%s: frame blob with the legacy ref default.pandas_local read back as %s" % (sc, repr(v)[:80]), case, mechanism="legacy-pandas-ref")
            except BaseException as e:
                rep.violate("local/%s: frame blob with the legacy ref default.pandas_local: %s: %s" % (sc, type(e).__name__, str(e)[:120]), case, mechanism="legacy-pandas-ref")
        rep.bump("write_refs", ",".join(sorted(set(str(w[2]) for w in written.values()))))
        if len(written) >= 2:
            rep.nontriv(("c17", kind, sc, repr(tags)))
    return rep


LOOKALIKE_REFS = {"user_a": "acme.string", "user_b": "zip.bytes", "user_c": "arch.pickle", "user_d": "fast.pandas"}


def _lookalike_codecs():
    """User file codecs for UserA/UserB values whose protocol names end like those of the built-in codecs."""
    from dds.structures import FileCodecProtocol, ProtocolRef, SupportedType

    def mk(ref, tname, cls, prefix):
        class C(FileCodecProtocol):
            def ref(self):
                return ProtocolRef(ref)

            def handled_types(self):
                return [SupportedType(tname)]

            def serialize_into(self, blob, loc):
                with open(str(loc), "wb") as f:
                    f.write(prefix + repr(blob.x).encode("utf-8"))

            def deserialize_from(self, loc):
                with open(str(loc), "rb") as f:
                    d = f.read()
                assert d.startswith(prefix), d[:20]
                return cls(eval(d[len(prefix):].decode("utf-8")))

        return C()

    return lambda ra, rb: [mk(ra, "checks.c17.UserA", UserA, b"LA:"), mk(rb, "checks.c17.UserB", UserB, b"LB:")]


def _lookalike_proc(arg):
    role, kind, root, refs, cache = arg
    import dds
    from dds.structures import DDSException

    dds.accept_module("checks")
    if kind == "local":
        dds.set_store("local", internal_dir=os.path.join(root, "internal"), data_dir=os.path.join(root, "data"), cache_objects=cache)
    else:
        from vp.fakedbutils import FakeDbutils

        _DBFS_ROOT[0] = root
        dds.set_store("dbfs", internal_dir="dbfs:/internal", data_dir="dbfs:/data", dbutils=FakeDbutils(root), cache_objects=cache)
    from dds import _api

    reg = _api._store().codec_registry()
    codecs = _lookalike_codecs()(*refs)
    out = {}

    def rd(label):
        for t in ("user_a", "user_b"):
            try:
                v = dds.load("/c17l/%s" % t)
                out[(label, t)] = ("ok", pickle.dumps(v))
            except DDSException as e:
                out[(label, t)] = ("dds", getattr(getattr(e, "error_code", None), "name", None))
            except BaseException as e:
                out[(label, t)] = ("exc", "%s: %s" % (type(e).__name__, str(e)[:120]))

    if role == "writer":
        for c in codecs:
            reg.add_file_codec(c)
        for t in ("user_a", "user_b"):
            dds.keep("/c17l/%s" % t, produce, t)
        rd("after-keep")
    else:
        rd("before-registration")
        for c in reversed(codecs):
            reg.add_file_codec(c)
        rd("after-registration")
    return out


def lookalike_job(arg):
    """Results written by user codecs whose protocol names end like a built-in one (acme.string, zip.bytes, ...): a process
    that has not registered them gets an error for these paths, never a value decoded by another codec; once it registers
    them (in another order) it reads what was written - also with the object cache on."""
    kind, refs, cache = arg
    rep = core.Report("C17")
    rep.evaluations = 1
    case = {"lookalike": True, "kind": kind, "refs": list(refs), "cache": cache}
    with core.Scratch("vp_c17l_") as root:
        w = core.fork_call(_lookalike_proc, ("writer", kind, root, refs, cache), timeout=300)
        r = core.fork_call(_lookalike_proc, ("reader", kind, root, refs, cache), timeout=300)
    if isinstance(w, core.JobFailed) or isinstance(r, core.JobFailed):
        rep.inconclusive.append("look-alike protocol job: %r %r" % (w, r))
        return rep
    for (label, t), o in sorted(list(w.items()) + list(r.items())):
        rep.count("reads_with_lookalike_protocol_names")
        want = value(t)
        if label == "before-registration":
            if o[0] == "ok":
                rep.violate("%s (cache=%r): /c17l/%s was written by a user codec named %r; a process that has not registered it read it back as %s instead of getting an error" % (kind, cache, t, refs[0 if t == "user_a" else 1], repr(pickle.loads(o[1]))[:80]), case,
                            mechanism="decoded-by-another-codec")
        elif o[0] != "ok" or not SM.values_equal(pickle.loads(o[1]), want):
            rep.violate("%s (cache=%r): /c17l/%s (user codec %r) read %s gives %s" % (kind, cache, t, refs[0 if t == "user_a" else 1], label, repr(pickle.loads(o[1]))[:80] if o[0] == "ok" else o[1]), case, mechanism="decoded-by-another-codec")
    rep.nontriv(("c17look", kind, refs, repr(cache)))
    return rep


def _reversed_text_codec(ref="acme.reversed_text"):
    from dds.structures import CodecProtocol, ProtocolRef, SupportedType

    class ReversedText(CodecProtocol):
        """takes the str type over from the built-in codec on the registry it is added to (add_codec)."""

        def ref(self):
            return ProtocolRef(ref)

        def handled_types(self):
            return [SupportedType("str")]

        def serialize_into(self, blob, loc):
            with _open_loc(loc, "wb") as f:
                f.write(blob[::-1].encode("utf-8"))

        def deserialize_from(self, loc):
            with _open_loc(loc, "rb") as f:
                return f.read().decode("utf-8")[::-1]

    return ReversedText()


def cross_registry_job(arg):
    """Two stores with registries of their own in one process (a DBFS store has a private registry, the local and memory
    stores use the default one): a codec registered on one of them does not change how the other writes and reads."""
    first = arg
    import dds
    from dds import _api
    from vp.fakedbutils import FakeDbutils

    rep = core.Report("C17")
    rep.evaluations = 1
    dds.accept_module("checks")
    case = {"cross_registry": True, "first": first}
    text = value("str_nonascii")
    with core.Scratch("vp_c17x_") as root:
        _DBFS_ROOT[0] = root
        ldirs = dict(internal_dir=os.path.join(root, "li"), data_dir=os.path.join(root, "ld"))

        def use(which):
            if which == "dbfs":
                dds.set_store("dbfs", internal_dir="dbfs:/internal", data_dir="dbfs:/data", dbutils=FakeDbutils(root))
            else:
                dds.set_store("local", **ldirs)
            return _api._store()

        st1 = use(first)
        st1.codec_registry().add_codec(_reversed_text_codec())
        v1 = dds.keep("/c17x/on_first", produce, "str_nonascii")
        other = "local" if first == "dbfs" else "dbfs"
        use(other)
        v2 = dds.keep("/c17x/on_other", produce2, "str_ascii")
        v3 = dds.keep("/c17x/text_on_other", produce, "str_nonascii")
        l3 = dds.load("/c17x/text_on_other")
        rep.count("reads_checked", 2)
        if v1 != text or v3 != text or l3 != text:
            rep.violate("codec registered on the %s store's registry: keeps / load of the text give %r / %r / %r" % (first, v1[:20], v3[:20], l3[:20]), case, mechanism="registry-shared-between-stores")
        # what the other store wrote is in the built-in format: protocol recorded and the verbatim copy under its data directory
        if other == "local":
            fp = os.path.join(ldirs["data_dir"], "c17x", "text_on_other")
            metas = [os.path.join(ldirs["internal_dir"], "blobs", f) for f in os.listdir(os.path.join(ldirs["internal_dir"], "blobs")) if f.endswith(".meta")]
        else:
            fp = os.path.join(root, "dbfs", "data", "c17x", "text_on_other")
            bd = os.path.join(root, "dbfs", "internal", "blobs")
            metas = [os.path.join(bd, f) for f in os.listdir(bd) if f.endswith(".meta")]
        rep.count("verbatim_text_checks")
        try:
            with open(fp, "rb") as f:
                raw = f.read()
        except OSError as e:
            raw = repr(e).encode()
        if raw != text.encode("utf-8"):
            rep.violate("a text codec was registered on the %s store's registry only; the %s store wrote the text as %r under its data directory" % (first, other, raw[:30]), case, mechanism="registry-shared-between-stores")
        protos = set()
        for mp in metas:
            with open(mp) as f:
                protos.add(json.load(f).get("protocol"))
        if "acme.reversed_text" in protos:
            rep.violate("a text codec was registered on the %s store's registry only; blobs of the %s store name the protocol acme.reversed_text" % (first, other), case, mechanism="registry-shared-between-stores")
    rep.nontriv(("c17cross", first))
    return rep


def fork_keep_job(arg, prop="C17"):
    """Worker processes forked from a process whose DBFS store has already stored a blob keep different results at the same
    time (their uploads are lined up by a barrier in the fake dbutils): afterwards every path serves its own value."""
    cache, tags = arg[:2]
    commit_type = arg[2] if len(arg) > 2 else None
    import multiprocessing

    import dds
    from vp.fakedbutils import FakeDbutils

    rep = core.Report(prop)
    rep.evaluations = 1
    dds.accept_module("checks")
    case = {"fork_keep": True, "cache": cache, "tags": tags, "commit_type": commit_type}
    with core.Scratch("vp_c17k_") as root:
        _DBFS_ROOT[0] = root
        dbu = FakeDbutils(root)
        dds.set_store("dbfs", internal_dir="dbfs:/internal", data_dir="dbfs:/data", dbutils=dbu, cache_objects=cache, commit_type=commit_type)
        dds.keep("/c17k/warmup", produce2, tags[0])
        ctx = multiprocessing.get_context("fork")
        barrier = ctx.Barrier(len(tags))
        q = ctx.Queue()

        def hook(src, dst):
            if src.startswith("file:") and "/blobs/" in dst and not dst.endswith(".meta"):
                try:
                    barrier.wait(3)
                except Exception:
                    pass

        def worker(t):
            dbu.fs.before_cp_hook = hook
            try:
                v = dds.keep("/c17k/%s" % t, produce, t)
                q.put((t, "ok", pickle.dumps(v)))
            except BaseException as e:
                q.put((t, "exc", "%s: %s" % (type(e).__name__, str(e)[:150])))

        procs = [ctx.Process(target=worker, args=(t,)) for t in tags]
        for pr in procs:
            pr.start()
        res = {}
        for _ in tags:
            try:
                t, st, payload = q.get(timeout=60)
                res[t] = (st, payload)
            except Exception:
                break
        for pr in procs:
            pr.join(10)
            if pr.is_alive():
                pr.terminate()
        # a new store object reads everything back
        dds.set_store("dbfs", internal_dir="dbfs:/internal", data_dir="dbfs:/data", dbutils=FakeDbutils(root), commit_type=commit_type)
        loads = {}
        for t in tags:
            try:
                loads[t] = ("ok", dds.load("/c17k/%s" % t))
            except BaseException as e:
                loads[t] = ("exc", "%s: %s" % (type(e).__name__, str(e)[:120]))
    for t in tags:
        rep.count("reads_checked_forked_workers")
        if t not in res:
            rep.inconclusive.append("forked worker for %s gave no answer" % t)
            continue
        st, payload = res[t]
        if st != "ok" or not SM.values_equal(pickle.loads(payload), value(t)):
            rep.violate("dbfs (cache=%r): forked workers keeping different results at the same time: keep of /c17k/%s gave %s" % (cache, t, payload if st != "ok" else repr(pickle.loads(payload))[:80]), case, mechanism="concurrent-transfer-mixed-up")
        elif loads[t][0] != "ok" or not SM.values_equal(loads[t][1], value(t)):
            rep.violate("dbfs (cache=%r): forked workers keeping different results at the same time: afterwards /c17k/%s loads as %s, its keep returned %s" % (cache, t, repr(loads[t][1])[:80], repr(value(t))[:60]), case,
                        mechanism="concurrent-transfer-mixed-up")
    rep.nontriv(("c17forkkeep", repr(cache), repr(tags)))
    return rep


class UserT(object):
    """a small table; its codec stores it as a directory with one file per column."""

    def __init__(self, cols):
        self.cols = cols

    def __eq__(self, o):
        return isinstance(o, UserT) and o.cols == self.cols


def produce_table(n):
    from vp import vlog

    vlog.hit("produce_table")
    return UserT({"a": list(range(n)), "b": ["x"] * n})


def dir_codec_job(arg):
    """A user codec whose stored form is a directory (one file per column): kept, kept again (served, not recomputed),
    loaded in the same and in another process."""
    cache = arg
    import dds
    from dds.structures import CodecProtocol, ProtocolRef, SupportedType
    from vp import vlog

    class TableDirCodec(CodecProtocol):
        def ref(self):
            return ProtocolRef("user.table_dir")

        def handled_types(self):
            return [SupportedType("checks.c17.UserT")]

        def serialize_into(self, blob, loc):
            os.makedirs(str(loc))
            for k, v in blob.cols.items():
                with open(os.path.join(str(loc), k + ".json"), "w") as f:
                    json.dump(v, f)

        def deserialize_from(self, loc):
            cols = {}
            for fn in sorted(os.listdir(str(loc))):
                with open(os.path.join(str(loc), fn)) as f:
                    cols[fn[:-5]] = json.load(f)
            return UserT(cols)

    rep = core.Report("C17")
    rep.evaluations = 1
    dds.accept_module("checks")
    case = {"dir_codec": True, "cache": cache}
    want = UserT({"a": [0, 1, 2], "b": ["x"] * 3})
    with core.Scratch("vp_c17d_") as root:
        def proc(args):
            dds.set_store("local", internal_dir=os.path.join(root, "i"), data_dir=os.path.join(root, "d"), cache_objects=cache)
            from dds import _api

            _api._store().codec_registry().add_codec(TableDirCodec())
            vlog.clear()
            out = []
            for a in args:
                try:
                    out.append(("ok", dds.keep("/c17d/t", produce_table, 3) if a == "keep" else dds.load("/c17d/t"), vlog.snapshot()))
                except BaseException as e:
                    out.append(("exc", "%s: %s" % (type(e).__name__, str(e)[:120]), vlog.snapshot()))
                vlog.clear()
            return out

        a = core.fork_call(proc, ["keep", "keep", "load"], timeout=300)
        b = core.fork_call(proc, ["load", "keep"], timeout=300)
    if isinstance(a, core.JobFailed) or isinstance(b, core.JobFailed):
        rep.inconclusive.append("directory codec job: %r %r" % (a, b))
        return rep
    for who, obs, logs in (("first process", a, [["produce_table"], [], []]), ("second process", b, [[], []])):
        for i, ((st, v, lg), el) in enumerate(zip(obs, logs)):
            rep.count("reads_checked")
            if st != "ok" or v != want:
                rep.violate("a result whose codec stores a directory (cache_objects=%r): %s, step %d gives %s" % (cache, who, i, v if st != "ok" else repr(v.cols)[:60]), case, mechanism="directory-blob-not-read-back")
                return rep
            if lg != el:
                rep.violate("a result whose codec stores a directory (cache_objects=%r): %s, step %d executed %r (expected %r): the stored result was not used" % (cache, who, i, lg, el), case, mechanism="directory-blob-not-read-back")
                return rep
    rep.nontriv(("c17dir", repr(cache)))
    return rep


def fork_job(arg, prop="C17"):
    """Worker processes forked from a process whose DBFS store has already transferred blobs read different paths at the
    same time (their downloads are lined up by a barrier in the fake dbutils): each gets its own value."""
    cache, tags = arg[:2]
    commit_type = arg[2] if len(arg) > 2 else None
    import multiprocessing

    import dds
    from vp.fakedbutils import FakeDbutils

    rep = core.Report(prop)
    rep.evaluations = 1
    dds.accept_module("checks")
    case = {"fork": True, "cache": cache, "tags": tags, "commit_type": commit_type}
    with core.Scratch("vp_c17f_") as root:
        _DBFS_ROOT[0] = root
        dbu = FakeDbutils(root)
        dds.set_store("dbfs", internal_dir="dbfs:/internal", data_dir="dbfs:/data", dbutils=dbu, cache_objects=cache, commit_type=commit_type)
        for t in tags:
            dds.keep("/c17f/%s" % t, produce, t)
        # the parent has transferred blobs (stores and one load) before the workers are forked
        dds.load("/c17f/%s" % tags[0])
        ctx = multiprocessing.get_context("fork")
        barrier = ctx.Barrier(len(tags))
        q = ctx.Queue()

        def hook(src, dst):
            if dst.startswith("file:"):
                try:
                    barrier.wait(3)
                except Exception:
                    pass

        def worker(t):
            dbu.fs.after_cp_hook = hook
            try:
                v = dds.load("/c17f/%s" % t)
                q.put((t, "ok", pickle.dumps(v)))
            except BaseException as e:
                q.put((t, "exc", "%s: %s" % (type(e).__name__, str(e)[:150])))

        procs = [ctx.Process(target=worker, args=(t,)) for t in tags]
        for pr in procs:
            pr.start()
        res = {}
        for _ in tags:
            try:
                t, st, payload = q.get(timeout=60)
                res[t] = (st, payload)
            except Exception:
                break
        for pr in procs:
            pr.join(10)
            if pr.is_alive():
                pr.terminate()
    for t in tags:
        rep.count("reads_checked_forked_workers")
        if t not in res:
            rep.inconclusive.append("forked worker for %s gave no answer" % t)
            continue
        st, payload = res[t]
        if st != "ok":
            rep.violate("dbfs (cache=%r): forked workers loading different paths at the same time: reading /c17f/%s raised %s" % (cache, t, payload), case, mechanism="concurrent-transfer-mixed-up")
        elif not SM.values_equal(pickle.loads(payload), value(t)):
            rep.violate("dbfs (cache=%r): forked workers loading different paths at the same time: /c17f/%s read back as %s" % (cache, t, repr(pickle.loads(payload))[:80]), case, mechanism="concurrent-transfer-mixed-up")
    rep.nontriv(("c17fork", repr(cache), repr(tags)))
    return rep


def run(tier, seed):
    rep = core.Report("C17")
    rng = core.rng_for(seed, "c17")
    rep.rule = (
        "values %r (str: empty/ASCII/non-ASCII/CRLF/1MB, bytes: empty/all 256 values/1MB, None, ints, nested containers, picklable object, pandas frames, "
        "types with a user FileCodecProtocol and a user CodecProtocol) x registration scenarios %r applied between writes and reads x stores {local, local+cache, dbfs(fake), dbfs(fake)+cache, memory}; "
        "reads through dds.load in the same process, Store.fetch_blob on a new store object, and dds.load in another process with the extra codecs registered before/after the user codecs; on local stores the metadata file of some blobs is removed (killed writer) and the call repeated under the changed codec selection; worker processes forked from a process with a DBFS store reading different paths at the same time. "
        "distinct_nontrivial = distinct (store, scenario, value order) runs that wrote >=2 values." % (TAGS, SCENARIOS)
    )
    jobs = []
    reps = 1 if tier == "quick" else 4
    for kind in ("local", "local_lru", "dbfs", "dbfs_lru", "memory"):
        for sc in SCENARIOS:
            for r in range(reps):
                tags = list(TAGS)
                if tier == "quick":
                    tags = [t for t in tags if t not in ("bytes_big",)] if (kind, sc) != ("local", "none") else tags
                rng.shuffle(tags)
                jobs.append((kind, sc, tags))
    fjobs = [(None, ["str_ascii", "str_nonascii"]), (None, ["str_ascii", "nested", "bytes_plain"]), (None, ["frame0", "obj"])]
    ljobs = [(kind, refs, cache) for kind in ("local", "dbfs") for refs in (("acme.string", "zip.bytes"), ("arch.pickle", "fast.pandas"), ("my.codec.string", "bytes")) for cache in (None, 2)]
    results = core.fork_map(lambda j: {"f": fork_job, "j": job, "l": lookalike_job, "x": cross_registry_job, "d": dir_codec_job, "k": fork_keep_job}[j[0]](j[1]), [("j", j) for j in jobs] + [("f", j) for j in fjobs] + [("l", j) for j in ljobs] + [("x", "dbfs"), ("x", "local"), ("d", None), ("d", 2), ("k", (None, ["str_ascii", "str_nonascii"])), ("k", (None, ["nested", "bytes_plain", "obj"]))], timeout=900)
    for r in results[len(jobs):]:
        if isinstance(r, core.JobFailed):
            rep.inconclusive.append("fork job: %r" % (r,))
        else:
            rep.merge(r)
    results = results[: len(jobs)]
    for j, r in zip(jobs, results):
        if isinstance(r, core.JobFailed):
            rep.inconclusive.append("job %r/%r: %r" % (j[0], j[1], r))
            continue
        rep.merge(r)
    rep.sample({"store": jobs[0][0], "scenario": jobs[0][1], "value_order": jobs[0][2][:8]})
    rep.assumptions = ["bytearray results may come back as bytes", "frames restricted to what parquet round-trips", "fake dbutils for DBFS"]
    return rep


def replay(payload):
    rep = core.Report("C17")
    c = payload["case"]
    if c.get("fork"):
        rep.merge(fork_job((c["cache"], c["tags"])))
        return rep
    if c.get("lookalike"):
        rep.merge(lookalike_job((c["kind"], tuple(c["refs"]), c["cache"])))
        return rep
    if c.get("fork_keep"):
        rep.merge(fork_keep_job((c["cache"], c["tags"], c.get("commit_type"))))
        return rep
    if c.get("dir_codec"):
        rep.merge(dir_codec_job(c["cache"]))
        return rep
    if c.get("cross_registry"):
        rep.merge(cross_registry_job(c["first"]))
        return rep
    rep.merge(job((c["kind"], c["scenario"], c["tags"])))
    return rep
