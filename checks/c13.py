"""
C13 - a kept call's signature depends on the argument binding, not on its spelling.

Monitor: the signature handed to Store.sync_paths for dds.keep("/p", f, <spelling>) - called
directly with values, and discovered as literals inside a wrapper evaluated with dds.eval -
for every spelling of every binding of generated functions.
Oracle: one signature per binding class (inspect.signature(f).bind + apply_defaults, compared
under the documented identifications), distinct classes have distinct signatures, within and
across the two modes.
"""
import importlib
import inspect
import itertools
import os
import sys

from vp import core, values as V

DEFAULTS = [0, 1, None, "", "x", False]
VALUES = [0, 1, 2, None, "", "x", "__none__", 1.5, "__DDS_NONE__", True, 1.0, 0.0]
PNAMES = ["a", "b", "c", "d"]
NODEF = "<nodefault>"


def shapes(nmax, rng, tier):
    out = []
    for n in range(1, nmax + 1):
        alls = []
        for ndef in range(0, n + 1):
            for defs in itertools.product(DEFAULTS, repeat=ndef):
                alls.append(tuple([NODEF] * (n - ndef) + list(defs)))
        if n <= 2:
            out += alls
        else:
            # always keep the shapes with one falsy / None default, sample the rest
            keep = [s for s in alls if sum(1 for d in s if d != NODEF) <= 1]
            rest = [s for s in alls if s not in keep]
            rng.shuffle(rest)
            k = (12 if n == 3 else 6) if tier == "quick" else (80 if n == 3 else 60)
            out += keep + rest[:k]
    return out


def spellings(shape, binding):
    """All (positional values, ordered keyword items) spelling `binding` for a function of `shape`."""
    n = len(shape)
    out = []
    for k in range(0, n + 1):
        pos = tuple(binding[:k])
        rest = list(range(k, n))
        # each remaining parameter: keyword, or omitted if it has a default equal to the bound value
        choices = []
        for i in rest:
            c = [("kw", i)]
            if shape[i] != NODEF and type(shape[i]) is type(binding[i]) and shape[i] == binding[i]:
                c.append(("omit", i))
            choices.append(c)
        for combo in itertools.product(*choices):
            kws = [i for (t, i) in combo if t == "kw"]
            perms = list(itertools.permutations(kws))
            if len(perms) > 6:
                perms = perms[:6]
            for perm in perms:
                out.append((pos, tuple((PNAMES[i], binding[i]) for i in perm)))
    return out


def fun_src(name, shape):
    params = []
    for i, d in enumerate(shape):
        params.append(PNAMES[i] if d == NODEF else "%s=%r" % (PNAMES[i], d))
    ps = ", ".join(params)
    body = ", ".join(PNAMES[: len(shape)])
    return "def %s(%s):\n    return (%r, %s,)\n" % (name, ps, name, body)


def call_src(fname, pos, kws):
    args = [repr(v) for v in pos] + ["%s=%r" % (k, v) for k, v in kws]
    return "dds.keep(\"/p\", %s%s)" % (fname, "".join(", " + a for a in args))


def _redefined(shape):
    """Another shape with the same parameters but other defaults (a later version of the same function)."""
    alt = []
    for d in shape:
        if d == NODEF:
            alt.append(d)
        else:
            alt.append(DEFAULTS[(DEFAULTS.index(d) + 1) % len(DEFAULTS)] if d in DEFAULTS else 0)
    return tuple(alt)


def job(arg):
    """Runs in a forked child: one function shape, all its bindings and spellings; then the function is
    redefined with other defaults (module rewritten + reloaded) and everything is asked again."""
    shape, idx, bindings, scratch = arg
    out1 = _one_pass(shape, idx, bindings, scratch, None)
    alt = _redefined(shape)
    if alt != tuple(shape):
        bs2 = []
        for b in bindings:
            b = list(b)
            # keep the bindings that hit a default hitting the *new* default
            for i, (d0, d1) in enumerate(zip(shape, alt)):
                if d0 != NODEF and type(b[i]) is type(d0) and b[i] == d0:
                    b[i] = d1
            bs2.append(tuple(b))
        out2 = _one_pass(alt, idx, list(dict.fromkeys(bs2)), scratch, out1[3])
        return (shape, out1[1], out1[2], (alt, out2[1], out2[2]))
    return (shape, out1[1], out1[2], None)


def _one_pass(shape, idx, bindings, scratch, prev_mod):
    import dds
    from dds.store import MemoryStore
    from vp.capstore import CapturingStore

    pkg = "c13pkg_%d" % idx
    d = os.path.join(scratch, pkg)
    os.makedirs(d, exist_ok=True)
    fname = "f"
    src = ["import dds\n", fun_src(fname, shape), "\n"]
    calls = []
    w = 0
    for b in bindings:
        for (pos, kws) in spellings(shape, b):
            calls.append((b, pos, kws, "w%d" % w))
            src.append("def w%d():\n    return %s\n\n" % (w, call_src(fname, pos, kws)))
            w += 1
    with open(os.path.join(d, "__init__.py"), "w") as f:
        f.write("".join(src))
    if prev_mod is None:
        sys.path.insert(0, scratch)
        mod = importlib.import_module(pkg)
        dds.accept_module(pkg)
    else:
        import linecache

        linecache.checkcache()
        mod = importlib.reload(prev_mod)
    f = getattr(mod, fname)
    sig_of = inspect.signature(f)
    out = []
    for (b, pos, kws, wname) in calls:
        ba = sig_of.bind(*pos, **dict(kws))
        ba.apply_defaults()
        bound = tuple(ba.arguments[p] for p in PNAMES[: len(shape)])
        expected = f(*pos, **dict(kws))
        for mode in ("direct", "source"):
            cs = CapturingStore(MemoryStore())
            dds.set_store(cs)
            try:
                if mode == "direct":
                    r = dds.keep("/p", f, *pos, **dict(kws))
                else:
                    r = dds.eval(getattr(mod, wname))
                m = cs.last_sync()
                sig = m.get("/p") if m else None
                out.append((mode, repr(bound), (pos, kws), sig, None, r == expected))
            except BaseException as e:
                out.append((mode, repr(bound), (pos, kws), None, "%s: %s" % (type(e).__name__, str(e)[:200]), False))
    return (shape, out, "".join(src[:3]), mod)


def _canon_bound(bound_repr):
    return repr(V.canon_doc(eval(bound_repr)))


def classify_same_binding(shape, spell_a, spell_b, bound):
    """Mechanism label for 'same binding, different signature'."""
    # which parameters are omitted in exactly one spelling / explicit None in direct vs source
    return None


NESTED_SRC = """import dds


def work(a, tag=None):
    return ("work", a, tag)


def relay(a):
    # a plain helper between the two kept calls
    return dds.keep("/c13n/inner_via_helper", work, a, tag="h")


def stage(n, offset=0):
    inner = dds.keep("/c13n/inner", work, n)
    inner2 = relay(n)
    return ("stage", inner, inner2, offset)
"""


def nested_job(arg):
    """A kept function whose body keeps another call on one of its own parameters: the inner signature follows the
    binding of the outer call (same binding class -> same signature, other class -> other signature), whatever the spelling."""
    scratch, idx = arg
    import dds
    from dds import _api
    from vp.capstore import CapturingStore

    rep = core.Report("C13")
    d = os.path.join(scratch, "c13n_%d" % idx)
    os.makedirs(os.path.join(d, "c13npkg%d" % idx))
    open(os.path.join(d, "c13npkg%d" % idx, "__init__.py"), "w").write("")
    open(os.path.join(d, "c13npkg%d" % idx, "m.py"), "w").write(NESTED_SRC)
    sys.path.insert(0, d)
    mod = importlib.import_module("c13npkg%d.m" % idx)
    dds.accept_module("c13npkg%d" % idx)
    dds.set_store("memory")
    cs = CapturingStore(_api._store_var)
    dds.set_store(cs)
    by_class = {}
    for v in VALUES:
        for spelling, call in (("positional", lambda: dds.keep("/c13n/stage", mod.stage, v)), ("keyword", lambda: dds.keep("/c13n/stage", mod.stage, n=v)),
                               ("explicit default", lambda: dds.keep("/c13n/stage", mod.stage, v, 0)), ("eval", lambda: dds.eval(mod.stage, v))):
            cs.clear()
            rep.evaluations += 1
            rep.count("calls_nested")
            want = ("stage", ("work", v, None), ("work", v, "h"), 0)
            try:
                got = call()
            except BaseException as e:
                rep.violate("nested keep: stage(%r) spelled %s raised %s: %s" % (v, spelling, type(e).__name__, str(e)[:120]), {"nested": True, "value": repr(v), "spelling": spelling}, mechanism="keep-raised")
                continue
            if V.canon_doc(got) != V.canon_doc(want):  # bool = int is a documented identification
                rep.violate("nested keep: stage(%r) spelled %s returned %r, plain execution gives %r (an inner result computed for another binding was served)" % (v, spelling, got, want),
                            {"nested": True, "value": repr(v), "spelling": spelling},
                            mechanism="none-sentinel-string" if (v is None or v == "__DDS_NONE__") and isinstance(got, tuple) and len(got) == 4 and got[1][1:2] in ((None,), ("__DDS_NONE__",)) else "nested-wrong-value")
            m = cs.last_sync() or {}
            for inner in ("/c13n/inner", "/c13n/inner_via_helper"):
                if inner in m:
                    by_class.setdefault((inner, repr(V.canon_doc(v))), set()).add(m[inner])
    sig_owner = {}
    for (inner, ck), sigs in by_class.items():
        rep.count("binding_classes")
        if len(sigs) > 1:
            rep.violate("nested keep: %s has %d signatures for the outer binding %s" % (inner, len(sigs), ck), {"nested": True, "class": ck}, mechanism="nested-same-binding-differs")
        for sg in sigs:
            if (inner, sg) in sig_owner and sig_owner[(inner, sg)] != ck:
                o = sig_owner[(inner, sg)]
                a, b = eval(o), eval(ck)
                known = (a == ("none",) and b == ("str", "__DDS_NONE__")) or (b == ("none",) and a == ("str", "__DDS_NONE__"))
                rep.violate("nested keep: %s shares one signature for the outer bindings %s and %s" % (inner, o, ck), {"nested": True, "classes": [o, ck]},
                            mechanism="none-sentinel-string" if known else "nested-distinct-bindings-collide")
            sig_owner[(inner, sg)] = ck
    if by_class:
        rep.nontriv(("c13nested", idx))
    return rep


UNARY_SRC = """import dds


def shift(a, b=0):
    return ("shift", a, b)


def w0():
    return dds.keep("/c13u/p", shift, 1)


def w1():
    return dds.keep("/c13u/p", shift, +1)


def w2():
    return dds.keep("/c13u/p", shift, -1)


def w3():
    return dds.keep("/c13u/p", shift, ~0)


def w4():
    return dds.keep("/c13u/p", shift, ~1)


def w5():
    return dds.keep("/c13u/p", shift, not 1)


def w6():
    return dds.keep("/c13u/p", shift, 2, b=-0)


def w7():
    return dds.keep("/c13u/p", shift, 2, b=~0)


def w8():
    return dds.keep("/c13u/p", shift, -1.5)


def w9():
    return dds.keep("/c13u/p", shift, +1.5)
"""
UNARY_EXPECT = [("shift", 1, 0), ("shift", 1, 0), ("shift", -1, 0), ("shift", -1, 0), ("shift", -2, 0), ("shift", False, 0), ("shift", 2, 0), ("shift", 2, -1), ("shift", -1.5, 0), ("shift", 1.5, 0)]


def unary_job(arg):
    """Kept calls whose literal arguments carry a unary operator (+1, -1, ~0, not 1): every call returns what plain
    execution returns, and calls that bind different values never share a signature."""
    scratch, idx = arg
    import dds
    from dds import _api
    from vp.capstore import CapturingStore

    rep = core.Report("C13")
    d = os.path.join(scratch, "c13u_%d" % idx)
    os.makedirs(os.path.join(d, "c13upkg%d" % idx))
    open(os.path.join(d, "c13upkg%d" % idx, "__init__.py"), "w").write("")
    open(os.path.join(d, "c13upkg%d" % idx, "m.py"), "w").write(UNARY_SRC)
    sys.path.insert(0, d)
    mod = importlib.import_module("c13upkg%d.m" % idx)
    dds.accept_module("c13upkg%d" % idx)
    dds.set_store("memory")
    cs = CapturingStore(_api._store_var)
    dds.set_store(cs)
    owner = {}
    for rnd in (0, 1):
        for i, want in enumerate(UNARY_EXPECT):
            cs.clear()
            rep.evaluations += 1
            rep.count("calls_source")
            try:
                got = dds.eval(getattr(mod, "w%d" % i))
            except BaseException as e:
                rep.violate("literal with a unary operator (w%d) raised %s: %s" % (i, type(e).__name__, str(e)[:120]), {"unary": i}, mechanism="keep-raised")
                continue
            if V.canon_doc(got) != V.canon_doc(want) or repr(got) != repr(want) and not isinstance(want[1], bool):
                rep.violate("kept call w%d (literal with a unary operator) returned %r, plain execution gives %r" % (i, got, want), {"unary": i}, mechanism="unary-literal-wrong-value")
            sg = (cs.last_sync() or {}).get("/c13u/p")
            ck = repr(V.canon_doc(want))
            if sg is not None:
                if sg in owner and owner[sg] != ck:
                    rep.violate("kept calls binding %s and %s (literals with unary operators) share one signature" % (owner[sg], ck), {"unary": i}, mechanism="unary-literal-collision")
                owner.setdefault(sg, ck)
    rep.nontriv(("c13unary", idx))
    return rep


TWOKEEPS_SRC = """import dds


def shift(a, b=0):
    return ("shift", a, b)


def several():
    p1 = dds.keep("/c13t/p1", shift, 1)
    p2 = dds.keep("/c13t/p2", shift, 2)
    p3 = dds.keep("/c13t/p3", shift, 1, b=5)
    p4 = dds.keep("/c13t/p4", shift, a=2)
    p5 = dds.keep("/c13t/p5", shift, 1, 0)
    return (p1, p2, p3, p4, p5)
"""


def twokeeps_job(arg):
    """One function kept several times in one evaluation, every call written with literals only: each call returns what plain
    execution returns; calls with the same binding share a signature, calls with different bindings do not."""
    scratch, idx = arg
    import dds
    from dds import _api
    from vp.capstore import CapturingStore

    rep = core.Report("C13")
    d = os.path.join(scratch, "c13t_%d" % idx)
    os.makedirs(os.path.join(d, "c13tpkg%d" % idx))
    open(os.path.join(d, "c13tpkg%d" % idx, "__init__.py"), "w").write("")
    open(os.path.join(d, "c13tpkg%d" % idx, "m.py"), "w").write(TWOKEEPS_SRC)
    sys.path.insert(0, d)
    mod = importlib.import_module("c13tpkg%d.m" % idx)
    dds.accept_module("c13tpkg%d" % idx)
    dds.set_store("memory")
    cs = CapturingStore(_api._store_var)
    dds.set_store(cs)
    want = (("shift", 1, 0), ("shift", 2, 0), ("shift", 1, 5), ("shift", 2, 0), ("shift", 1, 0))
    for rnd in (0, 1):
        cs.clear()
        rep.evaluations += 1
        rep.count("calls_source", 5)
        try:
            got = dds.eval(mod.several)
        except BaseException as e:
            rep.violate("one function kept five times with literal arguments in one evaluation: raised %s: %s" % (type(e).__name__, str(e)[:120]), {"twokeeps": True}, mechanism="keep-raised")
            continue
        if got != want:
            rep.violate("one function kept five times with literal arguments in one evaluation returned %r, plain execution gives %r" % (got, want), {"twokeeps": True}, mechanism="same-function-literal-keeps-collide")
        sg = cs.last_sync() or {}
        sigs = [sg.get("/c13t/p%d" % i) for i in (1, 2, 3, 4, 5)]
        if None not in sigs and not (sigs[0] == sigs[4] and sigs[1] == sigs[3] and len(set(sigs)) == 3):
            rep.violate("signatures of five literal kept calls of one function (bindings (1,0) (2,0) (1,5) (2,0) (1,0)): %r" % [x[:8] for x in sigs], {"twokeeps": True}, mechanism="same-function-literal-keeps-collide")
    rep.nontriv(("c13twokeeps", idx))
    return rep


def lookup(table):
    return ("lookup", sorted(table.items(), key=repr))


def dictkey_job(arg):
    """Direct kept calls whose argument is a dict: keys that differ only by type (1 / '1', None / 'None', 1.5 / '1.5',
    (1, 2) / '(1, 2)') are different bindings - each call returns what plain execution returns."""
    import dds
    from dds import _api
    from vp.capstore import CapturingStore

    rep = core.Report("C13")
    dds.accept_module("checks")
    dds.set_store("memory")
    cs = CapturingStore(_api._store_var)
    dds.set_store(cs)
    owner = {}
    tables = []
    for k in (1, None, 1.5, (1, 2), 0, False):
        tables += [{k: "x"}, {str(k): "x"}, {k: "x", "other": 1}, {str(k): "x", "other": 1}]
    for rnd in (0, 1):
        for t in tables:
            cs.clear()
            rep.evaluations += 1
            rep.count("calls_direct")
            rep.count("calls_with_dict_argument")
            want = lookup(t)
            try:
                got = dds.keep("/c13d/p", lookup, t)
            except BaseException as e:
                rep.violate("keep(/c13d/p, lookup, %r) raised %s: %s" % (t, type(e).__name__, str(e)[:120]), {"dictkey": repr(t)}, mechanism="keep-raised")
                continue
            if V.canon_doc(got) != V.canon_doc(want):
                rep.violate("keep(/c13d/p, lookup, %r) returned %r, plain execution gives %r (the result of a dict with other keys was served)" % (t, got, want), {"dictkey": repr(t)}, mechanism="dict-key-type-collision")
            sg = (cs.last_sync() or {}).get("/c13d/p")
            ck = repr(V.canon_doc(want))
            if sg is not None:
                if sg in owner and owner[sg] != ck:
                    rep.violate("kept calls binding %s and %s (dict arguments) share one signature" % (owner[sg], ck), {"dictkey": repr(t)}, mechanism="dict-key-type-collision")
                owner.setdefault(sg, ck)
    rep.nontriv(("c13dictkey",))
    return rep


LAYOUT_DECORATIONS = [
    ("plain", '    """Summary line."""\n    # a comment\n'),
    ("docstring-with-U+2028-twice", '    """Summary\u2028second line\u2028third line."""\n'),
    ("docstring-with-U+2029-and-NEL", '    """Summary\u2029second paragraph\x85third."""\n'),
    ("comment-with-two-form-feeds", "    # page one \x0c page two \x0c page three\n"),
    ("comment-with-vertical-tabs", "    # a \x0b b \x0b c \x0b d\n"),
    ("string-with-FS-GS-RS", "    sep = 'a\x1cb\x1dc\x1ed'\n"),
    ("four-docstring-lines-with-CR-free-text", '    """Line one.\n\n    Line three.\n    Line four.\n    """\n'),
]
# (argument text of the kept call in version A, value it gives, the same for version B)
LAYOUT_BINDINGS = [("[1, 2]", ("total", [1, 2]), "[1, 2, 40]", ("total", [1, 2, 40])), ("-1", ("total", -1), "-25", ("total", -25)), ("(3, OFFSET)", ("total", (3, 7)), "(4, OFFSET)", ("total", (4, 7))),
                   ("{'k': 1}", ("total", {"k": 1}), "{'k': 2}", ("total", {"k": 2}))]


def layout_job(arg):
    """Kept calls with non-constant arguments inside functions whose text holds characters that some text APIs treat
    as line boundaries (form feed, VT, FS/GS/RS, NEL, U+2028/2029) - in docstrings, comments and string literals before
    the call: after the bound value is edited (module rewritten and reloaded) the call returns what plain execution returns."""
    scratch, idx = arg
    import dds

    rep = core.Report("C13")
    d = os.path.join(scratch, "c13l_%d" % idx)
    pkg = "c13lpkg%d" % idx
    os.makedirs(os.path.join(d, pkg))
    open(os.path.join(d, pkg, "__init__.py"), "w").write("")
    sys.path.insert(0, d)
    dds.accept_module(pkg)
    dds.set_store("memory")

    def src(which):
        out = "import dds\n\nOFFSET = 7\n\n\ndef total(v):\n    return (\"total\", v)\n"
        for di, (dn, deco) in enumerate(LAYOUT_DECORATIONS):
            for bi, b in enumerate(LAYOUT_BINDINGS):
                out += "\n\ndef report_%d_%d():\n%s    r = dds.keep(\"/c13l/p%d_%d\", total,\n                 %s)\n    return r\n" % (di, bi, deco, di, bi, b[0 if which == "A" else 2])
        return out

    mod = None
    for which in ("A", "B", "A"):
        with open(os.path.join(d, pkg, "m.py"), "w", encoding="utf-8", newline="") as f:
            f.write(src(which))
        importlib.invalidate_caches()
        import linecache

        linecache.checkcache()
        mod = importlib.import_module(pkg + ".m") if mod is None else importlib.reload(mod)
        for di, (dn, deco) in enumerate(LAYOUT_DECORATIONS):
            for bi, b in enumerate(LAYOUT_BINDINGS):
                want = b[1 if which == "A" else 3]
                rep.evaluations += 1
                rep.count("calls_source")
                rep.count("calls_in_decorated_text")
                try:
                    got = dds.eval(getattr(mod, "report_%d_%d" % (di, bi)))
                except BaseException as e:
                    rep.violate("kept call inside a function with %s raised %s: %s" % (dn, type(e).__name__, str(e)[:120]), {"layout": dn, "binding": b[0]}, mechanism="keep-raised")
                    continue
                if repr(got) != repr(want):
                    rep.violate("kept call inside a function with %s: after the bound value was edited to %s the call returned %r, plain execution gives %r" % (dn, b[0 if which == "A" else 2], got, want),
                                {"layout": dn, "binding": b[0], "version": which}, mechanism="bound-literal-edit-not-seen")
    rep.nontriv(("c13layout", idx))
    return rep


CLASS_SRC = """import dataclasses
import dds


@dataclasses.dataclass
class Config:
    a: object
    b: object = 0

    def total(self):
        return (self.a, self.b)


class Base(object):
    def __init__(self, a, b=0):
        self.a = a
        self.b = b

    def total(self):
        return (self.a, self.b)


class Child(Base):
    def extra(self):
        return ("extra", self.a)


class Explicit(object):
    def __init__(self, a, b=0):
        self.pair = (a, b)

    def total(self):
        return self.pair
"""


def class_job(arg):
    """Classes as the kept callable (constructor generated by dataclass, inherited, written out): the signature follows
    the binding of the constructor arguments like that of a function."""
    scratch, idx = arg
    import dds
    from dds import _api
    from vp.capstore import CapturingStore

    rep = core.Report("C13")
    d = os.path.join(scratch, "c13c_%d" % idx)
    os.makedirs(os.path.join(d, "c13cpkg%d" % idx))
    open(os.path.join(d, "c13cpkg%d" % idx, "__init__.py"), "w").write("")
    open(os.path.join(d, "c13cpkg%d" % idx, "m.py"), "w").write(CLASS_SRC)
    sys.path.insert(0, d)
    mod = importlib.import_module("c13cpkg%d.m" % idx)
    dds.accept_module("c13cpkg%d" % idx)
    dds.set_store("memory")
    cs = CapturingStore(_api._store_var)
    dds.set_store(cs)
    vals = [v for v in VALUES if v not in ("__none__", "__DDS_NONE__")]
    for cname in ("Config", "Child", "Explicit"):
        cls = getattr(mod, cname)
        path = "/c13c/%s" % cname.lower()
        by_class = {}
        for v in vals:
            for spelling, call in (("positional", lambda: dds.keep(path, cls, v)), ("keyword", lambda: dds.keep(path, cls, a=v)), ("explicit default", lambda: dds.keep(path, cls, v, 0)), ("keyword default", lambda: dds.keep(path, cls, v, b=0))):
                cs.clear()
                rep.evaluations += 1
                rep.count("calls_class")
                try:
                    got = call()
                except BaseException as e:
                    rep.violate("kept class %s(%r) spelled %s raised %s: %s" % (cname, v, spelling, type(e).__name__, str(e)[:120]), {"cls": cname, "value": repr(v), "spelling": spelling}, mechanism="keep-raised")
                    continue
                tot = got.total() if hasattr(got, "total") else None
                if V.canon_doc(tot) != V.canon_doc((v, 0)):
                    rep.violate("kept class %s(%r) spelled %s returned an object with (a, b) = %r (the object built for another binding was served)" % (cname, v, spelling, tot),
                                {"cls": cname, "value": repr(v), "spelling": spelling}, mechanism="class-wrong-value")
                sg = (cs.last_sync() or {}).get(path)
                if sg is not None:
                    by_class.setdefault(repr(V.canon_doc(v)), set()).add(sg)
        owner = {}
        for ck, sigs in by_class.items():
            rep.count("binding_classes")
            if len(sigs) > 1:
                rep.violate("kept class %s: %d signatures for the binding %s" % (cname, len(sigs), ck), {"cls": cname, "class": ck}, mechanism="class-same-binding-differs")
            for sg in sigs:
                if sg in owner and owner[sg] != ck:
                    rep.violate("kept class %s: the bindings %s and %s share one signature" % (cname, owner[sg], ck), {"cls": cname, "classes": [owner[sg], ck]}, mechanism="class-distinct-bindings-collide")
                owner[sg] = ck
        if by_class:
            rep.nontriv(("c13class", cname))
    return rep


def run(tier, seed):
    rep = core.Report("C13")
    rng = core.rng_for(seed, "c13")
    nmax = 3 if tier == "quick" else 4
    shp = shapes(nmax, rng, tier)
    rep.rule = (
        "functions with 1..%d positional-or-keyword parameters, defaults drawn from %r (all shapes for n<=2, sampled for n>=3); "
        "bindings over %r (all for n=1, sampled otherwise); every spelling = positional prefix + each permutation of keywords, "
        "each defaulted parameter explicit or omitted; each spelling is run as a direct dds.keep and as literals in a wrapper under dds.eval; then the module is rewritten with other defaults for the same "
        "function, reloaded in the same process, and everything is asked again; plus a kept function that keeps another call on one of its own parameters (directly and through a plain helper), asked for every value and spelling; and classes as the kept callable (constructor generated by dataclass / inherited / explicit); literal arguments written with unary operators. "
        "distinct_nontrivial = number of distinct (function shape, binding class) groups for which at least two spellings/modes were compared."
        % (nmax, DEFAULTS, VALUES)
    )
    jobs = []
    with core.Scratch("vp_c13_") as scratch:
        for idx, shape in enumerate(shp):
            n = len(shape)
            allb = list(itertools.product(VALUES, repeat=n))
            if n == 1:
                bs = allb
            else:
                # always include bindings that hit the defaults, then a sample
                dflt = []
                for i, dv in enumerate(shape):
                    if dv != NODEF:
                        for v0 in VALUES[:3]:
                            b = [v0] * n
                            b[i] = dv
                            for j, dj in enumerate(shape):
                                if dj != NODEF and j != i:
                                    b[j] = dj
                            dflt.append(tuple(b))
                rng.shuffle(allb)
                k = (10 if n == 2 else 6) if tier == "quick" else (40 if n == 2 else 16)
                bs = list(dict.fromkeys(dflt + allb[:k]))
            jobs.append((shape, idx, bs, scratch))
        results = core.fork_map(job, jobs, timeout=600)
        nres = core.fork_map(lambda j: {"c": class_job, "n": nested_job, "u": unary_job, "l": layout_job, "d": dictkey_job, "t": twokeeps_job}[j[0]](j[1]), [("n", (scratch, 0)), ("c", (scratch, 1)), ("u", (scratch, 2)), ("l", (scratch, 3)), ("d", (scratch, 4)), ("t", (scratch, 5))], timeout=600)
    for r in nres:
        if isinstance(r, core.JobFailed):
            rep.inconclusive.append("nested job: %r" % (r,))
        else:
            rep.merge(r)
    passes = []
    for jb, res in zip(jobs, results):
        if isinstance(res, core.JobFailed):
            rep.inconclusive.append("worker for shape %r: %r" % (jb[0], res))
            continue
        passes.append((res[0], res[1], res[2], False))
        if res[3] is not None:
            passes.append((res[3][0], res[3][1], res[3][2], True))
    for (shape, out, src, redefined) in passes:
        rep.evaluations += len(out)
        if redefined:
            rep.count("passes_after_redefinition")
        by_class = {}
        for (mode, bound, spell, sig, exc, value_ok) in out:
            rep.count("calls_" + mode)
            if exc is not None:
                rep.violate(
                    "keep of f%r spelled %r (%s) raised %s" % (shape, spell, mode, exc),
                    {"shape": shape, "spelling": spell, "mode": mode, "src": src},
                    mechanism="keep-raised",
                )
                continue
            if not value_ok:
                rep.violate(
                    "keep of f%r spelled %r (%s) returned a wrong value" % (shape, spell, mode),
                    {"shape": shape, "spelling": spell, "mode": mode, "src": src},
                    mechanism="wrong-value",
                )
            if sig is None:
                # the call returned, but its path was never handed to the store for commit: this spelling did not end in
                # the stored, committed result that the other spellings of the same binding end in
                rep.violate(
                    "keep of f%r spelled %r (%s) returned, but its path was not committed (no signature reached the store)" % (shape, spell, mode),
                    {"shape": shape, "spelling": spell, "mode": mode, "src": src},
                    mechanism="path-not-committed",
                )
                continue
            by_class.setdefault(_canon_bound(bound), []).append((mode, bound, spell, sig))
        # same binding => same signature
        sig_to_class = {}
        for ck, items in by_class.items():
            sigs = {}
            for it in items:
                sigs.setdefault(it[3], []).append(it)
            if len(items) >= 2:
                rep.nontriv(("c13", shape, ck))
            rep.count("binding_classes")
            rep.count("same_binding_comparisons", len(items) - 1)
            if len(sigs) > 1:
                groups = list(sigs.values())
                a, b = groups[0][0], groups[1][0]
                rep.violate(
                    "f%s: binding %s has %d signatures, e.g. %s %r vs %s %r"
                    % (_shape_str(shape), a[1], len(sigs), a[0], _spell_str(a[2]), b[0], _spell_str(b[2])),
                    {"shape": shape, "bound": a[1], "a": a, "b": b, "src": src, "redefined": redefined},
                    mechanism=("after-redefinition:" if redefined else "") + str(_mech_same(shape, groups)) if (redefined or _mech_same(shape, groups)) else None,
                )
            for s in sigs:
                sig_to_class.setdefault(s, set()).add(ck)
        # different binding => different signature
        n_classes = len(by_class)
        rep.count("distinct_binding_pairs", n_classes * (n_classes - 1) // 2)
        for s, cks in sig_to_class.items():
            if len(cks) > 1:
                cl = sorted(cks)
                ia = by_class[cl[0]][0]
                ib = [it for it in by_class[cl[1]] if it[3] == s][0]
                ia = [it for it in by_class[cl[0]] if it[3] == s][0]
                rep.violate(
                    "f%s: different bindings %s and %s share signature %s" % (_shape_str(shape), ia[1], ib[1], s[:12]),
                    {"shape": shape, "a": ia, "b": ib, "src": src, "redefined": redefined},
                    mechanism=_mech_diff(shape, eval(ia[1]), eval(ib[1]), ia, ib) if not redefined or _mech_diff(shape, eval(ia[1]), eval(ib[1]), ia, ib) == "none-sentinel-string" else "after-redefinition",
                )
        rep.sample({"function": src.split("\n")[1], "example_spellings": [_spell_str(o[2]) for o in out[:6]]}, cap=5)
    rep.assumptions = ["positional-or-keyword parameters only (*args/**kwargs are documented as unsupported)",
                       "in-source literals are AST constants (non-negative numbers, strings, None, booleans)"]
    return rep


def _shape_str(shape):
    return "(" + ", ".join(PNAMES[i] if d == NODEF else "%s=%r" % (PNAMES[i], d) for i, d in enumerate(shape)) + ")"


def _spell_str(sp):
    pos, kws = sp
    return "(" + ", ".join([repr(v) for v in pos] + ["%s=%r" % (k, v) for k, v in kws]) + ")"


def _omitted(shape, spell):
    pos, kws = spell
    given = set(range(len(pos))) | set(PNAMES.index(k) for k, _ in kws)
    return [i for i in range(len(shape)) if i not in given]


def _mech_same(shape, groups):
    """Same binding, several signatures: name the mechanism when a listed one explains *all* of it."""
    # canonical explanation 1: an omitted falsy (non-None) default is hashed as the none-sentinel
    # canonical explanation 2: explicit None is hashed differently in direct calls and in source/defaults
    labels = set()
    reps = [g[0] for g in groups]
    for i in range(len(reps)):
        for j in range(i + 1, len(reps)):
            a, b = reps[i], reps[j]
            la = _pair_label(shape, a, b)
            labels.add(la)
    if None in labels:
        return None
    return "+".join(sorted(labels))


def _pair_label(shape, a, b):
    bound = eval(a[1])
    oa, ob = set(_omitted(shape, a[2])), set(_omitted(shape, b[2]))
    diff_omit = oa ^ ob
    ls = set()
    for i in diff_omit:
        d = shape[i]
        if d is None:
            # omitted None default vs explicit None
            ls.add("explicit-none-vs-default-none")
        elif not d:
            ls.add("falsy-default-omitted-vs-explicit")
        else:
            return None
    if a[0] != b[0]:
        # direct vs source: explicit None values are hashed differently
        explicit_none = [i for i, v in enumerate(bound) if v is None and (i not in oa or i not in ob)]
        if explicit_none:
            ls.add("explicit-none-direct-vs-source")
    if not ls:
        return None
    return "+".join(sorted(ls))


def _mech_diff(shape, ba, bb, ia, ib):
    """Different bindings, one signature."""
    ls = set()
    for i, (x, y) in enumerate(zip(ba, bb)):
        if V.same_doc(x, y):
            continue
        pair = {repr(x), repr(y)}
        if "'__none__'" in pair:
            other = x if y == "__none__" and isinstance(y, str) else y
            if other is None or (not other and not isinstance(other, str)) or other == "":
                ls.add("none-sentinel-string-argument")
                continue
        if pair == {"None", "'__DDS_NONE__'"}:
            ls.add("none-sentinel-string")
            continue
        return None
    return "+".join(sorted(ls)) if ls else None


def replay(payload):
    rep = core.Report("C13")
    c = payload["case"]
    shape = tuple(NODEF if x == NODEF else x for x in c["shape"])
    print("replay: re-running all spellings of shape", shape)
    with core.Scratch("vp_c13r_") as scratch:
        allb = list(itertools.product(VALUES, repeat=len(shape)))
        res = core.fork_map(job, [(shape, 0, allb[:80], scratch)], timeout=600)[0]
    print(repr(res)[:2000])
    return rep
