"""
C05 - value hashing is total, deterministic and collision-free on supported values.

Monitor: result / exception of dds.fun_args.dds_hash for every generated value (bulk), the
same list re-hashed in two other interpreter processes with other hash seeds, and, for
colliding and a sample of non-colliding pairs, the signature (Store.sync_paths) and the
returned value of dds.keep(path, f, value) on one store.
"""
import os
import subprocess
import sys
import json
import tempfile

from vp import core, values as V
from checks import c05vars_a, c05vars_b


def build_values(tier, seed):
    rng = core.rng_for(seed, "c05")
    atoms = V.atoms(tier)
    core_atoms = V.ATOMS_CORE
    vals = []
    segs = {}
    # exhaustive: nesting 1, width <= 2 over all atoms
    a = V.enumerate_values(atoms, 1, 2)
    segs["exhaustive_depth1_width2_all_atoms"] = len(a)
    vals += a
    # exhaustive: nesting 1, width 3 over a 12-atom boundary subset
    sub = [None, False, 0, 1, 2 ** 31, 0.0, -0.0, "", "|", "__DDS_NONE__", "\0\0\0\0", float("nan")]
    b = [c for e in __import__("itertools").product(sub, repeat=3) for c in V.containers_of(e)]
    segs["exhaustive_depth1_width3_boundary_atoms"] = len(b)
    vals += b
    # nesting 2 (quick) / 3 (thorough), sampled
    cap = 1500 if tier == "quick" else 12000
    depth = 2 if tier == "quick" else 3
    c = V.enumerate_values(core_atoms, depth, 3, cap=cap, rng=rng)
    segs["sampled_depth%d_width3" % depth] = len(c)
    vals += c
    n_rand = 3000 if tier == "quick" else 100000
    d = [V.random_deep(rng, atoms, rng.randrange(2, 7)) for _ in range(n_rand)]
    segs["random_deep"] = len(d)
    vals += d
    return vals, segs


def hash_all(vals):
    from dds.fun_args import dds_hash
    from dds.structures import DDSException

    out = []
    for v in vals:
        try:
            s = dds_hash(v)
            if isinstance(s, str) and s:
                out.append(("sig", s))
            else:
                out.append(("exc", "BadResult", repr(s)))
        except DDSException as e:
            code = getattr(e, "error_code", None)
            out.append(("dds", getattr(code, "name", None)))
        except BaseException as e:  # low-level exception: totality violation
            out.append(("exc", type(e).__name__, str(e)[:200]))
    return out


def _worker_main():
    # child process: regenerate the same values and dump outcomes
    tier, seed, outp = sys.argv[1], int(sys.argv[2]), sys.argv[3]
    core.setup_repo_path()
    vals, _ = build_values(tier, seed)
    res = hash_all(vals)
    with open(outp, "w") as f:
        json.dump(res, f)


def ident(x):
    return ("ident-result-for", repr(x), type(x).__name__)


def with_default(v, limit=2, tag="t"):
    return ("with_default", v, limit, tag)


def combined_vars():
    # two tracked variables with the same name in two modules (and a third one), read through their modules
    return ("combined", c05vars_a.BATCH, c05vars_b.BATCH, c05vars_a.OTHER)


def totality_mechanism(v, exc_type):
    def walk(x):
        yield x
        if isinstance(x, (list, tuple)):
            for y in x:
                for z in walk(y):
                    yield z
        elif isinstance(x, dict):
            for k, y in x.items():
                for z in walk(k):
                    yield z
                for z in walk(y):
                    yield z
        elif V.dataclasses.is_dataclass(x) and not isinstance(x, type):
            for f in V.dataclasses.fields(x):
                for z in walk(getattr(x, f.name)):
                    yield z

    parts = list(walk(v))
    if exc_type == "error" or exc_type == "struct.error":
        if any(isinstance(p, int) and not isinstance(p, bool) and not (-(2 ** 31) <= p < 2 ** 31) for p in parts):
            return "int-outside-32bit-struct-error"
    if exc_type == "UnicodeEncodeError":
        if any(isinstance(p, str) and any(0xD800 <= ord(ch) <= 0xDFFF for ch in p) for p in parts):
            return "lone-surrogate-unicode-error"
    return None


def run(tier, seed):
    rep = core.Report("C05")
    rep.rule = (
        "values: exhaustive nesting-1 containers of width<=2 over %d atoms (boundary ints, signed zeros, nan/inf, "
        "separator-like and sentinel-like strings, dates, paths), exhaustive width-3 over 12 boundary atoms, sampled "
        "nesting 2-3, random deeper values; each value hashed in 3 processes (hash seeds 0,1,random). "
        "distinct_nontrivial = number of distinct canonical forms (documented identifications applied) that were hashed; "
        "collision oracle = any signature class containing two different canonical forms."
        % len(V.atoms(tier))
    )
    import dds
    from dds.fun_args import dds_hash
    from vp.capstore import CapturingStore
    from dds.store import MemoryStore

    vals, segs = build_values(tier, seed)
    rep.extra["value_segments"] = segs
    res = hash_all(vals)
    rep.evaluations = len(vals)
    rep.count("values_hashed", len(vals))

    # --- totality
    for v, r in zip(vals, res):
        if r[0] == "sig":
            rep.count("outcome_signature")
        elif r[0] == "dds":
            if r[1] in ("TYPE_NOT_SUPPORTED", "SEQUENCE_TOO_LONG"):
                rep.count("outcome_coded_dds_error")
            else:
                rep.violate(
                    "hashing %s raised a DDSException without the documented code (%s)" % (V.short(v), r[1]),
                    {"kind": "totality", "value": repr(v), "outcome": r},
                    mechanism="uncoded-dds-error",
                )
        else:
            rep.count("outcome_lowlevel_exception")
            rep.violate(
                "hashing %s raised low-level %s: %s" % (V.short(v), r[1], r[2]),
                {"kind": "totality", "value": repr(v), "outcome": r},
                mechanism=totality_mechanism(v, r[1]),
                features={"exc": r[1]},
            )
    # oversize sequences at the configured bound +-1
    # ... under every kind of value the option accepts: the default, small bounds, 0 and None (= no limit)
    n_default = dds.get_option("hash.max_sequence_size")
    for n in (n_default, 3, 1, 0, None):
        try:
            dds.set_option("hash.max_sequence_size", n)
        except BaseException as e:
            rep.violate("set_option('hash.max_sequence_size', %r) raised %s" % (n, type(e).__name__), {"kind": "oversize", "bound": n}, mechanism="oversize-option-rejected")
            continue
        for name, mk in (
            ("list", lambda k: list(range(k))),
            ("tuple", lambda k: tuple(range(k))),
            ("dict", lambda k: dict((i, i) for i in range(k))),
        ):
            for k in ((n - 1, n, n + 1) if n is not None else (0, 5, n_default + 1)):
                if k < 0:
                    continue
                r = hash_all([mk(k)])[0]
                rep.count("oversize_probes")
                expect_err = n is not None and k > n
                ok = (r[0] == "dds" and r[1] == "SEQUENCE_TOO_LONG") if expect_err else (r[0] == "sig")
                if not ok:
                    rep.violate(
                        "%s of length %d (hash.max_sequence_size=%r): outcome %r" % (name, k, n, r),
                        {"kind": "oversize", "type": name, "len": k, "bound": n, "outcome": r},
                        mechanism="oversize-" + name,
                    )
    dds.set_option("hash.max_sequence_size", n_default)
    for bad in (object(), {1, 2}, b"ab", 1 + 2j):
        r = hash_all([bad])[0]
        rep.count("unsupported_type_probes")
        if not (r[0] == "dds" and r[1] == "TYPE_NOT_SUPPORTED"):
            rep.violate(
                "unsupported value %r: outcome %r instead of TYPE_NOT_SUPPORTED" % (bad, r),
                {"kind": "unsupported", "value": repr(bad), "outcome": r},
                mechanism="unsupported-type-not-coded",
            )

    # --- determinism across processes / hash seeds
    with core.Scratch("vp_c05_") as td:
        procs = []
        for i, hs in enumerate(("1", "random")):
            outp = os.path.join(td, "o%d.json" % i)
            env = dict(os.environ)
            env["PYTHONHASHSEED"] = hs
            p = subprocess.Popen(
                [sys.executable, "-c", "import sys; sys.path.insert(0, %r); from checks import c05; c05._worker_main()" % core.VERIF_DIR, tier, str(seed), outp],
                env=env,
                cwd="/",
            )
            procs.append((p, outp, hs))
        for p, outp, hs in procs:
            try:
                p.wait(timeout=600)
            except subprocess.TimeoutExpired:
                p.kill()
                rep.inconclusive.append("hash worker (seed %s) timed out" % hs)
                continue
            if p.returncode != 0 or not os.path.exists(outp):
                rep.inconclusive.append("hash worker (seed %s) failed rc=%s" % (hs, p.returncode))
                continue
            with open(outp) as f:
                other = [tuple(x) for x in json.load(f)]
            if len(other) != len(res):
                rep.inconclusive.append("hash worker produced %d results for %d values" % (len(other), len(res)))
                continue
            for v, a, b in zip(vals, res, other):
                rep.count("cross_process_comparisons")
                if tuple(a) != tuple(b):
                    rep.violate(
                        "hash of %s differs between processes: %r vs %r (PYTHONHASHSEED=%s)" % (V.short(v), a, b, hs),
                        {"kind": "determinism", "value": repr(v), "a": a, "b": b},
                        mechanism="nondeterministic-hash",
                    )
                    break

    # --- collision freedom
    groups = {}
    canon_seen = set()
    for v, r in zip(vals, res):
        if r[0] != "sig":
            continue
        c = V.canon_doc(v)
        ck = repr(c)
        canon_seen.add(ck)
        g = groups.setdefault(r[1], {})
        if ck not in g:
            g[ck] = v
    for ck in canon_seen:
        rep.nontrivial.add(core.h(ck))
    rep.count("distinct_signatures", len(groups))
    rep.count("distinct_canonical_forms", len(canon_seen))
    colliding_pairs = []
    for sig, g in groups.items():
        if len(g) < 2:
            continue
        reps = list(g.values())
        base = reps[0]
        for w in reps[1:]:
            if V.same_doc(base, w):
                continue
            rep.count("collision_pairs")
            mech = V.classify_pair(base, w)
            colliding_pairs.append((base, w, mech))
            rep.violate(
                "values %s and %s share signature %s" % (V.short(base, 60), V.short(w, 60), sig[:12]),
                {"kind": "collision", "v": repr(base), "w": repr(w), "sig": sig},
                mechanism=mech,
            )
    # pairwise comparisons implied by grouping: all pairs among distinct canonical forms
    rep.count("pairs_decided_by_grouping", len(canon_seen) * (len(canon_seen) - 1) // 2)

    # --- API tie-in: signature via sync_paths + served value
    dds.accept_module("checks")
    rng = core.rng_for(seed, "c05api")
    ok_vals = [v for v, r in zip(vals, res) if r[0] == "sig"]
    pairs = [(a, b, True) for (a, b, _) in colliding_pairs[:40]]
    for _ in range(60 if tier == "quick" else 400):
        a, b = rng.choice(ok_vals), rng.choice(ok_vals)
        if not V.same_doc(a, b):
            pairs.append((a, b, False))
    for a, b, coll in pairs:
        cs = CapturingStore(MemoryStore())
        dds.set_store(cs)
        try:
            r1 = dds.keep("/p", ident, a)
            m1 = cs.last_sync()
            r2 = dds.keep("/p", ident, b)
            m2 = cs.last_sync()
        except BaseException as e:
            rep.violate(
                "dds.keep(/p, ident, v) raised %s: %s" % (type(e).__name__, str(e)[:200]),
                {"kind": "api", "a": repr(a), "b": repr(b)},
                mechanism="api-keep-raised",
            )
            continue
        rep.count("api_pairs")
        same_sig = m1 is not None and m2 is not None and m1.get("/p") == m2.get("/p")
        wrong = r2 != ident(b)
        if coll:
            rep.count("api_collision_pairs_served_wrong" if wrong else "api_collision_pairs_ok")
        elif wrong or same_sig:
            rep.violate(
                "keep(/p, f, %s) after keep(/p, f, %s) returned the result computed for the other value" % (V.short(b, 60), V.short(a, 60)),
                {"kind": "api", "a": repr(a), "b": repr(b), "returned": repr(r2)},
                mechanism=V.classify_pair(a, b),
            )
    # --- arguments given by keyword, by position or left to the default: each binding gets the result of plain execution,
    # in particular None / False / 0 / '' given explicitly where the default is something else
    cs = CapturingStore(MemoryStore())
    dds.set_store(cs)
    for v in (1, None):
        for given in ([], [None], [0], [False], [""], [2], [3], [None, None], [2, "t"], [0, ""]):
            for as_kw in (False, True):
                a = [v] + ([] if as_kw else list(given))
                k = dict(zip(("limit", "tag"), given)) if as_kw else {}
                want = with_default(*a, **k)
                rep.count("api_default_bindings")
                try:
                    got = dds.keep("/pd", with_default, *a, **k)
                except BaseException as e:
                    rep.violate("dds.keep(/pd, with_default, %r, %r) raised %s: %s" % (a, k, type(e).__name__, str(e)[:150]), {"kind": "api-default", "args": repr(a), "kwargs": repr(k)}, mechanism="api-keep-raised")
                    continue
                if repr(got) != repr(want) and not (V.canon_doc(got) == V.canon_doc(want)):
                    rep.violate("keep(/pd, with_default, *%r, **%r) returned %r, plain execution gives %r (a result computed for another binding of the defaulted parameters was served)" % (a, k, got, want),
                                {"kind": "api-default", "args": repr(a), "kwargs": repr(k)}, mechanism="defaulted-parameter-binding-collision")
    # --- tracked variables: every state of (a.BATCH, b.BATCH, a.OTHER) gets its own signature and its own result
    states = [(1, 2, 0), (2, 1, 0), (3, 3, 0), (4, 4, 0), (1, 2, 1), (0, 0, 0), ("x", "y", 0), ("y", "x", 0), ([1], [2], 0), ([2], [1], 0), (None, 1, 0), (1, None, 0)]
    cs = CapturingStore(MemoryStore())
    dds.set_store(cs)
    seen = {}
    for st in states + states[:4]:
        c05vars_a.BATCH, c05vars_b.BATCH, c05vars_a.OTHER = st
        try:
            r = dds.keep("/pv", combined_vars)
        except BaseException as e:
            rep.violate("keep of a function reading variables %r raised %s: %s" % (st, type(e).__name__, str(e)[:150]), {"kind": "vars", "state": repr(st)}, mechanism="api-keep-raised")
            continue
        rep.count("variable_states")
        sig = (cs.last_sync() or {}).get("/pv")
        if r != ("combined",) + tuple(st):
            rep.violate("a function reading two same-named variables of two modules returned %r for the state %r (a result computed for another state was served)" % (r, st), {"kind": "vars", "state": repr(st)}, mechanism="variables-state-collision")
        elif sig in seen and repr(V.canon_doc(list(seen[sig]))) != repr(V.canon_doc(list(st))):
            rep.violate("variable states %r and %r share signature %s" % (seen[sig], st, sig and sig[:10]), {"kind": "vars", "state": repr(st)}, mechanism="variables-state-collision")
        seen.setdefault(sig, st)
    # ... variables whose names are spelled with double underscores (__version__, __SEED__) are variables like any other
    cs = CapturingStore(MemoryStore())
    dds.set_store(cs)
    for st in [(1, "s"), (2, "s"), (1, "t"), ("1.0", "s"), (1, "s"), (2, "s")]:
        c05vars_a.__version__, c05vars_a.__SEED__ = st
        rep.count("variable_states")
        try:
            r = dds.keep("/pdu", c05vars_a.read_dunders)
        except BaseException as e:
            rep.violate("keep of a function reading double-underscore variables %r raised %s: %s" % (st, type(e).__name__, str(e)[:150]), {"kind": "vars", "state": repr(st)}, mechanism="api-keep-raised")
            continue
        if r != ("dunders",) + st:
            rep.violate("a function reading the module variables __version__ / __SEED__ returned %r for the state %r (a result computed for another state was served)" % (r, st), {"kind": "vars", "state": repr(st)}, mechanism="variables-state-collision")
    c05vars_a.__version__, c05vars_a.__SEED__ = 1, "s"
    # ... under every setting of the options that switch tracking per type (accept_list: lists and tuples, accept_dict:
    # dicts), the values of the types that are still tracked keep their own signatures and results
    from collections import OrderedDict as _OD

    for al in (True, False):
        for ad in (True, False):
            dds.set_option("accept_list", al)
            dds.set_option("accept_dict", ad)
            cs = CapturingStore(MemoryStore())
            dds.set_store(cs)
            tracked = [(1, 2, 0), (2, 1, 0), ("x", 0, 0)]
            if al:
                tracked += [([1], 0, 0), ([2], 0, 0), ((1, 2), 0, 0), ((1, 3), 0, 0)]
            if ad:
                tracked += [({"k": 1}, 0, 0), ({"k": 2}, 0, 0), (0, {"k": 1}, 0), (_OD([("k", 3)]), 0, 0), (_OD([("k", 4)]), 0, 0), ({"k": {"n": 1}}, 0, 0), ({"k": {"n": 2}}, 0, 0)]
            try:
                for st in tracked + tracked[:2]:
                    c05vars_a.BATCH, c05vars_b.BATCH, c05vars_a.OTHER = st
                    r = dds.keep("/pvo", combined_vars)
                    rep.count("variable_states_under_options")
                    if r != ("combined",) + tuple(st):
                        rep.violate("with accept_list=%s accept_dict=%s a function reading variables returned %r for the state %r (a result computed for another state was served)" % (al, ad, r, st),
                                    {"kind": "vars", "state": repr(st), "accept_list": al, "accept_dict": ad}, mechanism="variables-state-collision-under-options")
            except BaseException as e:
                rep.violate("with accept_list=%s accept_dict=%s keep of a function reading variables raised %s: %s" % (al, ad, type(e).__name__, str(e)[:150]), {"kind": "vars"}, mechanism="api-keep-raised")
    dds.set_option("accept_list", True)
    dds.set_option("accept_dict", True)
    cs = CapturingStore(MemoryStore())
    dds.set_store(cs)
    # ... and a variable whose value cannot be hashed ends in the coded error, whichever way the function spells the read
    from dds.structures import DDSException

    n_default = dds.get_option("hash.max_sequence_size")
    dds.set_option("hash.max_sequence_size", 3)
    for label, value, code in (("a list longer than hash.max_sequence_size", [1, 2, 3, 4, 5], "SEQUENCE_TOO_LONG"), ("a nested list longer than the bound", [[0, 1, 2, 3, 4]], "SEQUENCE_TOO_LONG"),
                               ("a list holding an object of an unsupported type", [1, {2, 3}], "TYPE_NOT_SUPPORTED"),
                               ("a tuple longer than hash.max_sequence_size", (1, 2, 3, 4, 5), "SEQUENCE_TOO_LONG"), ("a pair holding a tuple longer than the bound", (0, (0, 1, 2, 3, 4)), "SEQUENCE_TOO_LONG"),
                               ("a pair holding an object of an unsupported type", (1, {2, 3}), "TYPE_NOT_SUPPORTED"), ("an empty-looking tuple around an unsupported object", ({2, 3},), "TYPE_NOT_SUPPORTED"),
                               ("a dict whose value is a list longer than the bound", {"k": [1, 2, 3, 4, 5]}, "SEQUENCE_TOO_LONG")):
        c05vars_a.BATCH, c05vars_b.BATCH, c05vars_a.OTHER = value, 0, 0
        rep.count("variable_states")
        try:
            r = dds.keep("/pv2", combined_vars)
            rep.violate("a function reading a module variable (through its module) that holds %s was evaluated (%r) instead of ending in the coded error %s" % (label, r, code), {"kind": "vars", "state": repr(value)}, mechanism="variable-unhashable-value-ignored")
        except DDSException as e:
            got = getattr(getattr(e, "error_code", None), "name", None)
            if got != code:
                rep.violate("a function reading a module variable that holds %s ended in the DDS error %s, expected %s" % (label, got, code), {"kind": "vars", "state": repr(value)}, mechanism="uncoded-dds-error")
        except BaseException as e:
            rep.violate("a function reading a module variable that holds %s raised low-level %s" % (label, type(e).__name__), {"kind": "vars", "state": repr(value)}, mechanism="variable-lowlevel-error")
    dds.set_option("hash.max_sequence_size", n_default)
    c05vars_a.BATCH, c05vars_b.BATCH, c05vars_a.OTHER = 1, 2, 0
    for v in vals[:3] + vals[-3:]:
        rep.sample({"value": V.short(v), "canon": V.short(V.canon_doc(v))})
    for a, b, m in colliding_pairs[:3]:
        rep.sample({"collision": [V.short(a, 60), V.short(b, 60)], "mechanism": m})
    rep.assumptions = [
        "dict and OrderedDict with equal items, and dicts differing only in insertion order, are not required to be distinguished",
        "a date/time is identified with its repr() or str() text",
    ]
    return rep


def replay(payload):
    rep = core.Report("C05")
    c = payload["case"]
    import datetime, dataclasses  # noqa
    from collections import OrderedDict  # noqa
    from pathlib import PurePosixPath  # noqa
    from vp.values import DcA, DcB, DcC  # noqa

    nan = float("nan")  # noqa
    inf = float("inf")  # noqa
    if c["kind"] in ("totality",):
        v = eval(c["value"])
        r = hash_all([v])[0]
        print("outcome now:", r)
        if r[0] == "exc":
            rep.violate("still raises %r" % (r,), c)
    elif c["kind"] == "collision":
        v, w = eval(c["v"]), eval(c["w"])
        a, b = hash_all([v, w])
        print("sigs now:", a, b)
        if a == b and a[0] == "sig":
            rep.violate("still collide", c)
    return rep
