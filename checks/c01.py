"""
C01 - memoized evaluation returns exactly what plain execution would return.

Monitor: the return value (or exception) of every dds.eval / dds.keep / data-function entry call
at every step of a history, compared with a dds-free reference run of the same files (vp/refdds.py)
that performs the same import / reload / mutation sequence.
"""
from vp import core, progs, e1run, gen


def build_cases(tier, seed):
    rng = core.rng_for(seed, "c01")
    cases = []
    stores = ("local",) if tier == "quick" else ("local", "local_lru", "memory", "noop")
    cases += progs.matrix_cases("thorough", seed, stores=stores)
    if tier == "quick":
        # the always-on core on the other stores: own body / callee / variable / argument kinds
        core_names = ("const@", "var:int@", "var:bool@", "var:tuple@", "var:dict@", "lit:", "default@", "method_", "ref@", "entrydata")
        extra = [c for c in progs.matrix_cases("quick", seed, stores=("local_lru", "memory", "noop")) if c["name"].startswith(core_names)]
        rng.shuffle(extra)
        cases += extra[:250]
    n_rand = 300 if tier == "quick" else 3000
    for i in range(n_rand):
        cases.append(progs.random_case(rng, i, rng.choice(["local", "local", "local_lru", "memory", "noop"])))
    cases += progs.location_cases(tier, seed)
    cases += aliased_local_import_probes()
    cases += nested_scope_twin_probes()
    return cases


def nested_scope_twin_probes():
    """A function reads a module variable; a nested scope of the same function (a function defined in its body, a
    comprehension) binds a name of its own that is spelled like that variable. The variable's value is edited."""
    out = []
    for i, kind in enumerate(("nested_def_local", "comprehension_target")):
        for pos in ("A", "main"):
            p0 = progs.base_program("c01ns%d%s" % (i, pos))
            f = p0["fns"][p0["_ids"][pos]]
            vid = gen.add_var(p0, f["module"], "V_TWIN", "int")
            p0["order"][f["module"]].remove(("var", vid))
            p0["order"][f["module"]].insert(0, ("var", vid))
            f["reads"].append([vid, "bare"])
            if kind == "nested_def_local":
                f["stmts"].append(gen.s_nested_def(64, vid, form="local_twin"))
            else:
                f["comp_twin"] = vid
            p1, d = gen.e_set_var(p0, vid)
            d.update({"position": pos, "variant": "nested_scope_twin:" + kind})
            for hn, hist in (("restart", progs.history_restart([0, 1, 0, 1])), ("reload", progs.history_same_process([0, 1, 0, 1], "reload"))):
                out.append(progs._case("nested_scope_twin:%s@%s|%s|local" % (kind, pos, hn), [p0, p1], {(0, 1): d}, hist, "local"))
    return out


def aliased_local_import_probes():
    """A plain helper reached only through a name that an import statement inside the caller's body binds
    (`from pkg.mod import f`, `import pkg.mod as m`, `from pkg import mod`); the helper's body is edited."""
    out = []
    for i, form in enumerate(gen.ALIASED_LOCAL_FORMS):
        p0 = progs.base_program("c01al%d" % i)
        # only h1 (calling the plain helper h2 of another module) uses the form
        p0["fns"][p0["_ids"]["h1"]]["import_form"] = form
        p1, d = gen.e_set_const(p0, p0["_ids"]["h2"])
        d.update({"position": "h2", "import_form": form})
        for hn, hist in (("restart", progs.history_restart([0, 1, 0, 1])), ("reload", progs.history_same_process([0, 1, 0, 1], "reload"))):
            out.append(progs._case("aliased_local_import:%s@h2|%s|local" % (form, hn), [p0, p1], {(0, 1): d}, hist, "local"))
    return out


def classify(case, hi, feats):
    """Mechanism label of a C01 violation (only for the failure family recorded in known_findings.json)."""
    ed = feats.get("edit") or {}
    if case.get("name", "").startswith("aliased_local_import:") and feats.get("kind") == "stale-or-wrong-value" and ed.get("import_form") in gen.ALIASED_LOCAL_FORMS and ed.get("position") == "h2":
        return "function-local-aliased-import-not-tracked"
    if case.get("name", "").startswith("nested_scope_twin:") and feats.get("kind") == "stale-or-wrong-value" and str(ed.get("variant", "")).startswith("nested_scope_twin:") and ed.get("kind") == "set_var":
        return "module-variable-hidden-by-nested-scope-binding"
    return None


def run(tier, seed):
    rep = core.Report("C01")
    rep.rule = (
        "matrix: dependency kind (own body, callee body at depth 1-3, tracked variable of 11 value kinds in bare / imported / module-attribute access, literal arguments positional / keyword / "
        "on continuation lines / next to a run-time argument, parameter default, 8 import forms, higher-order reference, lambda, nested def, class/method) x position (kept function, helpers, kept child, "
        "sibling, run-time-argument keep, entry) x history v0 -> edit -> v0 -> edit with process restarts, in-process reload and in-process variable mutation x entry styles; "
        "random DAG programs (3-10 functions, 1-3 modules, 0-4 variables, mixed keeps/data functions/run-time arguments) with 6-10 step histories of edits, reverts, restarts; stores local, local+cache, memory, noop; "
        "a second process evaluating an edited producer between two evaluations of a long-lived process (stores configured through dds.set_store with cache_objects -1 / True / 5); code in an accepted package, in a __main__ script and in IPython cells. distinct_nontrivial = distinct (program skeleton, history shape, store, edit) cases in which a result was served from the store "
        "and an edit changed the reference value."
    )
    cases = build_cases(tier, seed)
    e1run.run_cases(cases, "C01", ["values"], rep, classify_name="checks.c01.classify")
    # another process evaluates an edited producer between two evaluations of a long-lived process (stores as configured by
    # dds.set_store with every cache_objects flavour): the long-lived process returns what plain execution returns
    from checks import c09

    ojobs = [(pl, pr, ed, st, 7000 + i, "C01") for i, (pl, pr, ed, st) in enumerate(
        [("top", "data", "prod_const", "local_api_cache_all"), ("kept", "keep", "prod_var", "local_api_cache_all"), ("helper", "data", "prod_callee", "local_api_cache_true"),
         ("kept_helper", "keep", "prod_const", "local_api_cache_5"), ("kept", "data", "prod_const", "local"), ("top", "keep", "prod_var", "dbfs")])]
    for j, r in zip(ojobs, core.fork_map(c09.other_process_job, ojobs, timeout=900)):
        if isinstance(r, core.JobFailed):
            rep.inconclusive.append("other-process job: %r" % (r,))
        else:
            rep.merge(r)
    # kept functions whose results are tables (row labels kept from a selection, a named index, odd column names): the
    # served result of the second evaluation and the loads equal what the function returns (the frame job of C04)
    from checks import c04

    fjobs = [(st, ["frame0", "frame1", "frame_labels", "frame_named_index", "frame_odd_names"]) for st in ("local", "local_lru")]
    for j, r in zip(fjobs, core.fork_map(lambda a: c04.frame_job(a, prop="C01"), fjobs, timeout=900)):
        if isinstance(r, core.JobFailed):
            rep.inconclusive.append("frame job: %r" % (r,))
        else:
            rep.merge(r)
    rep.sample({"case": cases[0]["name"], "history": cases[0]["history"], "edit": cases[0]["edit_desc"].get("0->1"),
                "entry_module_text": gen.render(cases[0]["versions"][0])[cases[0]["versions"][0]["pkg"] + "/top.py"][-600:]})
    rep.sample({"case": cases[-1]["name"], "history": cases[-1]["history"][:4]})
    rep.assumptions = ["supported subset of DESIGN.md 3.1 (top-level deterministic functions, each path kept by one call site executed once per evaluation, literal arguments are AST constants)",
                       "the reference performs the same import/reload/mutation sequence, so Python's own binding semantics are identical on both sides"]
    return rep


def replay(payload):
    from vp import e1

    rep = core.Report("C01")
    if "other_process" in payload["case"]:
        from checks import c09

        rep.merge(c09.other_process_job(tuple(payload["case"]["other_process"])))
        return rep
    if payload["case"].get("frames"):
        from checks import c04

        rep.merge(c04.frame_job((payload["case"]["store"], payload["case"]["tags"]), prop="C01"))
        return rep
    case = payload["case"]["case"]
    obs = e1.run_case(case)
    if obs["failed"]:
        rep.inconclusive.append(obs["failed"])
        return rep
    e1.oracle_values(case, obs, rep, "C01", classify)
    return rep
