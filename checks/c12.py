"""
C12 - the in-memory object cache is invisible and bounded.

Monitor: answers of LRUCacheStore(S1, n) and of a bare twin store S2 that receive the same
operations in lock step; weak references to every object returned by fetch_blob, counted after
the harness dropped its references and gc ran.
"""
import gc
import itertools
import os
import sys
import weakref

from vp import core
from vp import storemodel as SM

# key classes
P, A, L, N = "present", "absent", "stored_later", "none_valued"
B, M = "bytearray_valued", "mutable_list"  # values whose stored form differs from the live object
F, Z, E = "frame_valued", "ndarray_valued", "empty_frame_valued"  # values without a plain truth value / falsy containers
U, G = "lock_valued", "generator_valued"  # values that cannot be copied or pickled (the memory store holds them as they are)
ALPHABET = (
    [("has", k) for k in (P, A, L, N)]
    + [("fetch", k) for k in (P, A, L, N)]
    + [("store", k) for k in (P, L, N)]
    + [("sync", None), ("fetch_paths", None), ("fetch_paths_absent", None)]
)
LIVE_OPS = [("store", B), ("fetch", B), ("has", B), ("store", M), ("fetch", M), ("has", M), ("fetch", P)]
UNCOPYABLE_OPS = [("store", U), ("fetch", U), ("has", U), ("store", G), ("fetch", G), ("fetch", P)]
ALIAS_OPS = [("store", M), ("fetch", M), ("mutate_fetched", M), ("fetch", P)]
ARRAY_OPS = [("store", F), ("fetch", F), ("has", F), ("store", Z), ("fetch", Z), ("store", E), ("fetch", E), ("fetch", P)]
# path operations that move one path between two keys and back (A, B, A ...)
RECONF_OPS = [("store", L), ("fetch", L), ("has", L), ("reconfigure", None), ("fetch", P), ("sync_q_to", L), ("fetch_paths", None)]
PATH_OPS = [("sync_q_to", P), ("sync_q_to", N), ("sync_r_to", P), ("sync", None), ("fetch_paths", None)]
EXTRA_KEYS = ["x%d" % i for i in range(40)]  # to fill / overflow the cache
CAPS = [0, 1, 2, 3, 10, 16, sys.maxsize // 2]  # 0: a wrapper that may hold nothing; 16: larger than any burst below but one


def value_of(k):
    if k == B:
        return bytearray(b"value-of-bytearray")
    if k == M:
        return [1, 2, "value-of-mutable"]
    if k == U:
        import threading

        return threading.Lock()
    if k == G:
        return (i for i in range(3))
    if k == F:
        return SM.result_value("frame_labels")
    if k == E:
        return SM.result_value("frame_labels").iloc[0:0]
    if k == Z:
        import numpy

        return numpy.arange(6).reshape(2, 3)
    return None if k == N else SM.Obj("value-of-" + k)


def _typed(ans):
    """fetch answers are compared with their type (bytearray(b'x') == b'x' in Python)."""
    if ans[0] == "ok":
        v = ans[1]
        tn = type(v).__name__
        if tn == "DataFrame":
            v = (v.to_json(orient="split"), [str(t) for t in v.dtypes], str(v.index.dtype))
        elif tn == "ndarray":
            v = (v.tolist(), str(v.dtype))
        elif tn in ("lock", "generator"):
            v = tn  # two distinct objects never compare equal: the type is the answer
        return ("ok", tn, v)
    return ans


def _answer(fn):
    from dds.structures import DDSException

    try:
        return ("ok", fn())
    except DDSException as e:
        return ("dds", None)
    except BaseException as e:
        return ("exc", type(e).__name__ + ": " + str(e)[:100])


def run_sequence(under, cap, seq, root, rep, check_bound):
    """Twin stores in lock step; returns list of violations (what, mechanism)."""
    from dds._lru_store import LRUCacheStore
    from collections import OrderedDict

    kind = {"memory": "memory", "local": "local"}[under]
    s1 = SM.make_store(kind, os.path.join(root, "w"))
    s2 = SM.make_store(kind, os.path.join(root, "b"))
    for st in (s1, s2):
        st.store_blob(SM.key_for(P), value_of(P), None)
        st.store_blob(SM.key_for(N), value_of(N), None)
    w = LRUCacheStore(s1, cap)
    refs = []
    out = []
    stored_w, stored_b = {SM.key_for(P): None, SM.key_for(N): None}, {SM.key_for(P): None, SM.key_for(N): None}  # pre-stored keys: no identity claim
    ta = tb = v = v2 = None
    for step, (op, k) in enumerate(seq):
        key = SM.key_for(k) if k is not None else None
        if op == "has":
            a, b = _answer(lambda: w.has_blob(key)), _answer(lambda: s2.has_blob(key))
            if a[0] == "ok" and b[0] == "ok":
                a, b = ("ok", bool(a[1])), ("ok", bool(b[1]))
        elif op == "fetch":
            a, b = _answer(lambda: w.fetch_blob(key)), _answer(lambda: s2.fetch_blob(key))
            ta, tb = _typed(a), _typed(b)
            # is the answer the very object that was stored (what the memory store does) or another one?
            ta = ta + (("same-object-as-stored", a[0] == "ok" and stored_w.get(key) is not None and a[1] is stored_w[key]),)
            tb = tb + (("same-object-as-stored", b[0] == "ok" and stored_b.get(key) is not None and b[1] is stored_b[key]),)
            if a[0] == "ok" and a[1] is not None:
                try:
                    refs.append(weakref.ref(a[1]))
                except TypeError:
                    pass
        elif op == "mutate_fetched":
            # the client changes the object it got from fetch_blob in place (sorts / extends a list result)
            a, b = _answer(lambda: w.fetch_blob(key)), _answer(lambda: s2.fetch_blob(key))
            for x in (a, b):
                if x[0] == "ok" and isinstance(x[1], list):
                    x[1].append("changed-by-the-caller-after-fetch")
            a = b = ("ok", None)
        elif op == "store":
            v = value_of(k)
            v2 = value_of(k)
            a, b = _answer(lambda: w.store_blob(key, v, None)), _answer(lambda: s2.store_blob(key, v2, None))
            # (a key stored twice gets two distinct harness objects, which no content-addressed use does: no identity claim then)
            stored_w[key], stored_b[key] = (v, v2) if key not in stored_w else (None, None)
            if k == M:
                # the producer goes on using (and changing) its object after it was stored
                v.append("changed-after-store")
                v2.append("changed-after-store")
        elif op in ("sync_q_to", "sync_r_to"):
            m = OrderedDict([("/p/q" if op == "sync_q_to" else "/r", SM.key_for(k))])
            a, b = _answer(lambda: w.sync_paths(m)), _answer(lambda: s2.sync_paths(m))
        elif op == "sync":
            m = OrderedDict([("/p/q", SM.key_for(P)), ("/r", SM.key_for(N))])
            a, b = _answer(lambda: w.sync_paths(m)), _answer(lambda: s2.sync_paths(m))
        elif op == "fetch_paths":
            a, b = _answer(lambda: dict(w.fetch_paths(["/p/q", "/r"]))), _answer(lambda: dict(s2.fetch_paths(["/p/q", "/r"])))
            if a[0] != "ok" and b[0] != "ok":
                # some path not committed yet: ask for each path on its own
                a = tuple(_answer(lambda q=q: dict(w.fetch_paths([q]))) for q in ("/p/q", "/r"))
                b = tuple(_answer(lambda q=q: dict(s2.fetch_paths([q]))) for q in ("/p/q", "/r"))
        elif op == "fetch_paths_absent":
            a, b = _answer(lambda: dict(w.fetch_paths(["/nope"]))), _answer(lambda: dict(s2.fetch_paths(["/nope"])))
        elif op == "reconfigure":
            # the process configures its store again on the same directories, emptied in between (a test suite, a notebook
            # that starts over): a new store object, a new cache around it - nothing of the old one may show through
            import shutil

            w = s1 = s2 = None
            for d in ("w", "b"):
                shutil.rmtree(os.path.join(root, d), ignore_errors=True)
            s1 = SM.make_store(kind, os.path.join(root, "w"))
            s2 = SM.make_store(kind, os.path.join(root, "b"))
            for st in (s1, s2):
                st.store_blob(SM.key_for(P), value_of(P), None)
                st.store_blob(SM.key_for(N), value_of(N), None)
            w = LRUCacheStore(s1, cap)
            stored_w, stored_b = {SM.key_for(P): None, SM.key_for(N): None}, {SM.key_for(P): None, SM.key_for(N): None}
            rep.count("reconfigurations")
            a = b = ("ok", None)
        elif op == "fill":
            # store + fetch many distinct objects through the wrapped store (and the twin)
            for x in EXTRA_KEYS[: k]:
                kx = SM.key_for(x)
                for st in (w, s2):
                    st.store_blob(kx, SM.Obj(x), None)
                o = w.fetch_blob(kx)
                s2.fetch_blob(kx)
                refs.append(weakref.ref(o))
                del o
            a = b = ("ok", None)
            key = None
        rep.count("answers_compared")
        if op == "fetch":
            a, b = ta, tb
        if a != b:
            mech = None
            prior = seq[:step]
            if k in (A, L) and ("fetch", k) in prior and ((op == "has") or (op == "fetch")):
                # a fetch of the key while absent came first
                stored_before_fetch = False
                for (o2, k2) in prior:
                    if (o2, k2) == ("store", k):
                        stored_before_fetch = True
                    if (o2, k2) == ("fetch", k):
                        break
                if not stored_before_fetch:
                    mech = "lru-caches-absent-fetch"
            if ("mutate_fetched", k) in prior and op == "fetch" and a[0] == "ok" and "changed-by-the-caller-after-fetch" in repr(a) and "changed-by-the-caller-after-fetch" not in repr(b):
                mech = "cached-object-aliased-to-caller"
            out.append(("%s cap=%s after %r: wrapped answered %r, bare store %r" % (under, cap, seq[: step + 1], a, b), mech))
            break
        a = b = ta = tb = v = v2 = None
    # boundedness
    if check_bound and under == "local":
        a = b = ta = tb = v = v2 = None
        gc.collect()
        alive = len(set(id(r()) for r in refs if r() is not None))
        rep.count("bound_checks")
        rep.bump("alive_objects_after_gc(cap:alive)", "%s:%d" % (cap if cap < 1000 else "unbounded", alive))
        if alive > cap:
            out.append(("%s cap=%s after %r: %d fetched objects still alive after gc" % (under, cap, seq, alive), "cache-bound-exceeded"))
    return out


def seq_job(arg):
    under, cap, seqs = arg
    rep = core.Report("C12")
    for seq in seqs:
        with core.Scratch("vp_c12_") as root:
            rep.evaluations += 1
            vs = run_sequence(under, cap, seq, root, rep, True)
            for what, mech in vs:
                rep.violate(what, {"under": under, "cap": cap, "seq": seq}, mechanism=mech)
            ops = set(o for o, _ in seq)
            if "fetch" in ops or "fill" in ops:
                rep.nontriv(("c12", under, cap, repr(seq)))
    return rep


def api_job(arg):
    """The cache as configured through dds.set_store(..., cache_objects=...)."""
    co, expect_cap = arg
    import dds
    from dds import _api

    rep = core.Report("C12")
    with core.Scratch("vp_c12a_") as root:
        dds.set_store("local", internal_dir=os.path.join(root, "i"), data_dir=os.path.join(root, "d"), cache_objects=co)
        st = _api._store()
        refs = []
        n = 45
        for i in range(n):
            kx = SM.key_for("api%d" % i)
            st.store_blob(kx, SM.Obj(i), None)
        for i in range(n):
            o = st.fetch_blob(SM.key_for("api%d" % i))
            if o != SM.Obj(i):
                rep.violate("cache_objects=%r: fetch returned %r" % (co, o), {"cache_objects": co}, mechanism="blob-roundtrip")
            refs.append(weakref.ref(o))
            del o
        gc.collect()
        alive = sum(1 for r in refs if r() is not None)
        rep.evaluations = 1
        rep.count("bound_checks")
        rep.bump("api_alive(cache_objects:alive)", "%r:%d" % (co, alive))
        if expect_cap is not None and alive > expect_cap:
            rep.violate("cache_objects=%r retains %d fetched objects (bound %d)" % (co, alive, expect_cap), {"cache_objects": co}, mechanism="cache-bound-exceeded")
        rep.nontriv(("c12api", repr(co)))
    return rep


def run(tier, seed):
    rep = core.Report("C12")
    rng = core.rng_for(seed, "c12")
    maxlen = 3 if tier == "quick" else 4
    seqs = []
    for n in range(1, maxlen + 1):
        seqs += [list(t) for t in itertools.product(ALPHABET, repeat=n)]
    rep.exhaustive = False
    rep.rule = (
        "all operation sequences of length <= %d over %d operations ({has,fetch} x {present,absent,stored-later,None-valued key}, store x {present,stored-later,None-valued}, "
        "sync, fetch_paths, fetch_paths of an absent path), all sequences of <=4 (thorough: <=6) path operations that move a path between two keys and back, x capacities %r x underlying {memory, local}, plus random sequences of length 30 with cache-filling bursts; "
        "lock-step comparison of every answer with a bare twin store; on the local store the number of fetched objects still alive after gc is compared with the capacity. "
        "distinct_nontrivial = distinct (underlying, capacity, sequence) triples that contain at least one fetch."
        % (maxlen, len(ALPHABET), ["unbounded" if c > 1000 else c for c in CAPS])
    )
    rnd = []
    for _ in range(60 if tier == "quick" else 600):
        s = []
        for _ in range(30):
            r = rng.random()
            if r < 0.15:
                s.append(("fill", rng.choice([1, 2, 3, 4, 11, 12, 18, 40])))
            elif r < 0.35:
                s.append(rng.choice(PATH_OPS))
            else:
                s.append(rng.choice(ALPHABET))
        rnd.append(s)
    # every sequence of path operations up to length 5 (paths moved between keys and back, queried in between)
    liveseqs = []
    for n in range(2, 4 if tier == "quick" else 5):
        liveseqs += [list(t) for t in itertools.product(LIVE_OPS, repeat=n)]
        liveseqs += [list(t) for t in itertools.product(ARRAY_OPS, repeat=n) if n <= 3]
        liveseqs += [list(t) for t in itertools.product(UNCOPYABLE_OPS, repeat=n) if n <= 3]
        liveseqs += [list(t) for t in itertools.product(ALIAS_OPS, repeat=n) if n <= 3 and ("mutate_fetched", M) in t]
    pathseqs = []
    for n in range(2, 5 if tier == "quick" else 7):
        pathseqs += [list(t) for t in itertools.product(PATH_OPS, repeat=n)]
    jobs = []
    for under in ("memory", "local"):
        for cap in CAPS:
            allseq = seqs + rnd
            if under == "local" and tier == "quick":
                # local twin stores are ~20x slower: all sequences <= 2, a rotating third of length 3, all random
                allseq = [s for s in seqs if len(s) <= 2] + [s for i, s in enumerate(s2 for s2 in seqs if len(s2) == 3) if i % 3 == seed % 3] + rnd
            if under == "local" and tier != "quick":
                allseq = [s for s in seqs if len(s) <= 3] + [s for i, s in enumerate(s2 for s2 in seqs if len(s2) == 4) if i % 6 == seed % 6] + rnd
            if tier != "quick" or cap in (1, CAPS[-1]):
                allseq = allseq + pathseqs
            if under == "local" and (tier != "quick" or cap in (1, 3, CAPS[-1])):
                allseq = allseq + liveseqs
            # the store configured again on emptied directories in the middle of the sequence
            allseq = allseq + [list(t) for n in (2, 3, 4) for t in itertools.product(RECONF_OPS, repeat=n) if ("reconfigure", None) in t[1:-1] or (n == 2 and t[0] != ("reconfigure", None) and ("reconfigure", None) in t)]
            if under == "memory":
                # values that only the memory store can hold, and the identity of what it hands back
                allseq = allseq + [list(t) for n in (2, 3) for t in itertools.product(UNCOPYABLE_OPS + [("store", M), ("fetch", M)], repeat=n)]
            chunk = 250
            for i in range(0, len(allseq), chunk):
                jobs.append(("seq", (under, cap, allseq[i : i + chunk])))
    for co, cap in ((None, None), (False, None), (True, 10), (0, None), (-1, None), (3, 3), (1, 1), (16, 16), (20, 20)):
        jobs.append(("api", (co, cap)))

    def dispatch(j):
        return {"seq": seq_job, "api": api_job}[j[0]](j[1])

    results = core.fork_map(dispatch, jobs, timeout=900)
    for j, r in zip(jobs, results):
        if isinstance(r, core.JobFailed):
            rep.inconclusive.append("job %r: %r" % (j[0], r))
            continue
        rep.merge(r)
    rep.sample({"sequence": seqs[len(seqs) // 2], "random_sequence_prefix": rnd[0][:8]})
    rep.assumptions = ["content-addressed discipline: a key is only ever stored with one value",
                       "the bound is checked on the local store (a memory store legitimately holds every object)"]
    return rep


def replay(payload):
    rep = core.Report("C12")
    c = payload["case"]
    seq = [tuple(x) for x in c["seq"]]
    with core.Scratch("vp_c12r_") as root:
        for what, mech in run_sequence(c["under"], c["cap"], seq, root, rep, True):
            rep.violate(what, c, mechanism=mech)
    return rep
