"""
C19 - the DBFS store honours its commit type and keeps legacy blobs readable.

Monitor: the files written through a directory-backed fake of dbutils.fs (its op log and
backing tree) and the values returned by dds.keep / dds.load, for every documented commit
type; blobs whose .meta is rewritten to a legacy codec reference are read back.
"""
import json
import os

import dds
from vp import core
from vp import storemodel as SM

DOCUMENTED = ["none", "links_only", "full"]
TAGS = ["str_ascii", "str_empty", "str_nonascii", "str_bom", "bytes_plain", "bytes_empty", "none", "int", "nested", "obj", "frame0"]


def produce_a(tag):
    return SM.result_value(tag)


def produce_b(tag):
    return ("second-version", SM.result_value(tag))


def two_paths():
    # one function, same argument, kept under two paths: both paths get the same blob key
    a = dds.keep("/alias/first", produce_a, "str_ascii")
    b = dds.keep("/alias/second", produce_a, "str_ascii")
    return (a, b)


def _spellings(c, tier):
    out = [c, c.upper(), c.capitalize()]
    return out


DIR_NAMES = [("int", "data"), ("projects/run#3/full/internal", "projects/run#3/full/data"), ("teams/a b/é?x/int", "teams/a b/é?x/data;v1"), ("deep/er/store/int", "other/tree/data")]


def commit_job(arg):
    ctype, spelling, seq = arg[:3]
    IDIR, DDIR = arg[3] if len(arg) > 3 else DIR_NAMES[0]
    import dds
    from dds.structures import DDSException
    from vp.fakedbutils import FakeDbutils

    rep = core.Report("C19")
    dds.accept_module("checks")
    with core.Scratch("vp_c19_") as root:
        dbu = FakeDbutils(root)
        try:
            dds.set_store("dbfs", internal_dir="dbfs:/" + IDIR, data_dir="dbfs:/" + DDIR, dbutils=dbu, commit_type=spelling)
        except BaseException as e:
            rep.evaluations = 1
            rep.violate(
                "set_store('dbfs', commit_type=%r) raised %s: %s" % (spelling, type(e).__name__, str(e)[:100]),
                {"commit_type": spelling},
                mechanism="documented-commit-type-rejected" if ctype in DOCUMENTED else None,
            )
            return rep
        rep.count("stores_configured")
        kept = {}
        for (path, fn, tag) in seq:
            f = produce_a if fn == "a" else produce_b
            expected = f(tag)
            rep.evaluations += 1
            try:
                v = dds.keep(path, f, tag)
            except BaseException as e:
                rep.violate("commit_type=%r: keep(%r, produce_%s, %r) raised %s: %s" % (spelling, path, fn, tag, type(e).__name__, str(e)[:150]), {"commit_type": spelling, "seq": seq, "dirs": [IDIR, DDIR]}, mechanism="keep-raised")
                continue
            rep.count("keeps")
            if not SM.values_equal(v, expected):
                rep.violate("commit_type=%r: keep(%r) returned %r, expected %r" % (spelling, path, v, expected), {"commit_type": spelling, "seq": seq, "dirs": [IDIR, DDIR]}, mechanism="keep-wrong-value")
            kept[path] = (expected, fn, tag)
            # a second keep of the same thing must be served (and equal)
            v2 = dds.keep(path, f, tag)
            if not SM.values_equal(v2, expected):
                rep.violate("commit_type=%r: second keep(%r) returned %r" % (spelling, path, v2), {"commit_type": spelling, "seq": seq, "dirs": [IDIR, DDIR]}, mechanism="keep-wrong-value")
            # --- files under the data directory
            data = os.path.join(root, "dbfs", DDIR)
            tree = SM.walk(data)
            files = dict((k, v_) for k, v_ in tree.items() if v_[0] == "file")
            rep.count("tree_inspections")
            if ctype == "none":
                if files:
                    rep.violate("commit_type=%r wrote %r under the data directory" % (spelling, sorted(files)[:3]), {"commit_type": spelling, "seq": seq, "dirs": [IDIR, DDIR]}, mechanism="none-commit-wrote-files")
                try:
                    dds.load(path)
                    rep.violate("commit_type=%r: load(%r) succeeded although nothing is committed" % (spelling, path), {"commit_type": spelling, "seq": seq, "dirs": [IDIR, DDIR]}, mechanism="none-commit-load")
                except (DDSException, Exception):
                    rep.count("none_commit_load_refused")
                continue
            for p2, (exp2, _, _) in kept.items():
                rel = p2.lstrip("/")
                rec = os.path.join(data, "_dds_meta", rel)
                if not os.path.isfile(rec):
                    rep.violate("commit_type=%r: no redirect record for %r" % (spelling, p2), {"commit_type": spelling, "seq": seq, "dirs": [IDIR, DDIR]}, mechanism="record-missing")
                    continue
                key = json.load(open(rec))["redirection_key"]
                blob = os.path.join(root, "dbfs", IDIR, "blobs", key)
                obj = os.path.join(data, rel)
                if ctype == "full":
                    if not os.path.exists(obj):
                        rep.violate("commit_type=%r: no copy of %r under the data directory" % (spelling, p2), {"commit_type": spelling, "seq": seq, "dirs": [IDIR, DDIR]}, mechanism="full-copy-missing")
                    elif os.path.isfile(obj) and open(obj, "rb").read() != open(blob, "rb").read():
                        rep.violate("commit_type=%r: copy of %r differs from its blob" % (spelling, p2), {"commit_type": spelling, "seq": seq, "dirs": [IDIR, DDIR]}, mechanism="full-copy-differs")
                    else:
                        rep.count("full_copies_byte_identical")
                    if isinstance(exp2, str) and os.path.isfile(obj) and open(obj, "rb").read() != exp2.encode("utf-8"):
                        rep.violate("commit_type=%r: copy of str result %r is not its UTF-8 text" % (spelling, p2), {"commit_type": spelling, "seq": seq, "dirs": [IDIR, DDIR]}, mechanism="full-copy-differs")
                else:
                    extra = [k for k in files if not k.startswith("_dds_meta")]
                    if extra:
                        rep.violate("commit_type=%r wrote data files %r (links only expected)" % (spelling, extra[:3]), {"commit_type": spelling, "seq": seq, "dirs": [IDIR, DDIR]}, mechanism="links-only-wrote-data")
                try:
                    lv = dds.load(p2)
                    rep.count("loads")
                    if not SM.values_equal(lv, exp2):
                        rep.violate("commit_type=%r: load(%r) = %r, kept %r" % (spelling, p2, lv, exp2), {"commit_type": spelling, "seq": seq, "dirs": [IDIR, DDIR]}, mechanism="load-wrong-value")
                except BaseException as e:
                    rep.violate("commit_type=%r: load(%r) raised %s: %s" % (spelling, p2, type(e).__name__, str(e)[:100]), {"commit_type": spelling, "seq": seq, "dirs": [IDIR, DDIR]}, mechanism="load-raised")
        # one key under two paths, the first path already recorded by an earlier evaluation
        if ctype != "none":
            try:
                dds.keep("/alias/first", produce_a, "str_ascii")
                r2 = dds.eval(two_paths)
                rep.count("alias_evaluations")
                exp = produce_a("str_ascii")
                if r2 != (exp, exp):
                    rep.violate("commit_type=%r: evaluation keeping one function under two paths returned %r" % (spelling, r2), {"commit_type": spelling, "seq": seq, "alias": True, "dirs": [IDIR, DDIR]}, mechanism="keep-wrong-value")
                for ap in ("/alias/first", "/alias/second"):
                    rec = os.path.join(root, "dbfs", DDIR, "_dds_meta", ap.lstrip("/"))
                    if not os.path.isfile(rec):
                        rep.violate("commit_type=%r: no redirect record for %r (same blob key as another path of the evaluation)" % (spelling, ap), {"commit_type": spelling, "seq": seq, "alias": True, "dirs": [IDIR, DDIR]}, mechanism="record-missing")
                        continue
                    if ctype == "full" and not os.path.exists(os.path.join(root, "dbfs", DDIR, ap.lstrip("/"))):
                        rep.violate("commit_type=%r: no copy of %r under the data directory" % (spelling, ap), {"commit_type": spelling, "seq": seq, "alias": True, "dirs": [IDIR, DDIR]}, mechanism="full-copy-missing")
                    lv = dds.load(ap)
                    rep.count("loads")
                    if lv != exp:
                        rep.violate("commit_type=%r: load(%r) = %r" % (spelling, ap, lv), {"commit_type": spelling, "seq": seq, "alias": True, "dirs": [IDIR, DDIR]}, mechanism="load-wrong-value")
            except BaseException as e:
                rep.violate("commit_type=%r: one function under two paths: %s: %s" % (spelling, type(e).__name__, str(e)[:150]), {"commit_type": spelling, "seq": seq, "alias": True, "dirs": [IDIR, DDIR]}, mechanism="keep-raised")
        # a long-lived store object (with and without the object cache) commits a path, another store object on the same
        # directories re-points it, the first one evaluates its unchanged code again: record, copy and load follow it
        if ctype != "none":
            from dds import _api

            for cache in (None, 3, True):
                try:
                    pth = "/handles/%s" % ("plain" if cache is None else "cached%s" % cache)
                    dds.set_store("dbfs", internal_dir="dbfs:/" + IDIR, data_dir="dbfs:/" + DDIR, dbutils=dbu, commit_type=spelling, cache_objects=cache)
                    first = _api._store()
                    dds.keep(pth, produce_a, "str_ascii")
                    dds.set_store("dbfs", internal_dir="dbfs:/" + IDIR, data_dir="dbfs:/" + DDIR, dbutils=dbu, commit_type=spelling, cache_objects=cache)
                    dds.keep(pth, produce_b, "str_ascii")
                    dds.set_store(first)
                    r3 = dds.keep(pth, produce_a, "str_ascii")
                    rep.count("handle_switches")
                    want = produce_a("str_ascii")
                    lv = dds.load(pth)
                    rec = os.path.join(root, "dbfs", DDIR, "_dds_meta", pth.lstrip("/"))
                    key = json.load(open(rec))["redirection_key"]
                    blob = os.path.join(root, "dbfs", IDIR, "blobs", key)
                    obj = os.path.join(root, "dbfs", DDIR, pth.lstrip("/"))
                    if r3 != want or lv != want:
                        rep.violate("commit_type=%r, cache_objects=%r: after another store object re-pointed %s and the first one evaluated its unchanged code again, keep returned %r and load gives %r" % (spelling, cache, pth, r3, lv),
                                    {"commit_type": spelling, "seq": seq, "dirs": [IDIR, DDIR], "handles": True}, mechanism="path-not-recommitted-by-long-lived-store")
                    elif ctype == "full" and (not os.path.isfile(obj) or open(obj, "rb").read() != open(blob, "rb").read() or open(obj, "rb").read() != want.encode("utf-8")):
                        rep.violate("commit_type=%r, cache_objects=%r: the copy of %s under the data directory is not the result that was just kept" % (spelling, cache, pth),
                                    {"commit_type": spelling, "seq": seq, "dirs": [IDIR, DDIR], "handles": True}, mechanism="path-not-recommitted-by-long-lived-store")
                except BaseException as e:
                    rep.violate("commit_type=%r, cache_objects=%r: two store objects on the same directories: %s: %s" % (spelling, cache, type(e).__name__, str(e)[:150]), {"commit_type": spelling, "seq": seq, "dirs": [IDIR, DDIR], "handles": True}, mechanism="keep-raised")
        if len(kept) >= 2:
            rep.nontriv(("commit", spelling, repr(seq)))
    return rep


def fault_job(arg):
    """One keep on a cold store with a transient failure injected before the n-th dbutils call, for every n; then the
    same keep again without faults: it must return the value and leave the store as a fault-free keep does."""
    ctype, tag, second_handle = arg
    import dds
    from dds.structures import DDSException
    from vp.fakedbutils import FakeDbutils

    rep = core.Report("C19")
    dds.accept_module("checks")
    expected = produce_a(tag)
    path = "/flt/%s" % tag
    # dry run: number of dbutils calls of a fault-free keep
    with core.Scratch("vp_c19f_") as root:
        dbu = FakeDbutils(root)
        dds.set_store("dbfs", internal_dir="dbfs:/int", data_dir="dbfs:/data", dbutils=dbu, commit_type=ctype)
        n0 = dbu.fs.nops
        dds.keep(path, produce_a, tag)
        m = dbu.fs.nops - n0
    for n in range(m):
        rep.evaluations += 1
        case = {"fault": True, "commit_type": ctype, "tag": tag, "fail_before_call": n, "second_handle": second_handle}
        with core.Scratch("vp_c19f_") as root:
            dbu = FakeDbutils(root)
            dds.set_store("dbfs", internal_dir="dbfs:/int", data_dir="dbfs:/data", dbutils=dbu, commit_type=ctype)
            dbu.fs.fail_at = dbu.fs.nops + n
            failed_call = None
            try:
                v = dds.keep(path, produce_a, tag)
                # dds may legitimately absorb the failure of a probing call (e.g. reading a record that may not exist)
                if not SM.values_equal(v, expected):
                    rep.violate("commit_type=%r: keep with a transient failure before call %d returned %r" % (ctype, n, v), case, mechanism="keep-wrong-value-after-fault")
                    continue
                rep.count("faults_absorbed")
            except BaseException as e:
                rep.count("faults_propagated")
                failed_call = dbu.fs.log[-1]
            if second_handle:
                dds.set_store("dbfs", internal_dir="dbfs:/int", data_dir="dbfs:/data", dbutils=FakeDbutils(root), commit_type=ctype)
            what = "commit_type=%r, %s, transient failure before dbutils call %d (%s), then the same keep again" % (ctype, tag, n, (failed_call or ("absorbed",))[0])
            try:
                v = dds.keep(path, produce_a, tag)
            except BaseException as e:
                rep.violate("%s: raised %s: %s" % (what, type(e).__name__, str(e)[:150]), case, mechanism="retry-after-fault-raised:%s" % (failed_call or ("absorbed",))[0])
                continue
            rep.count("retries_after_fault")
            if not SM.values_equal(v, expected):
                rep.violate("%s: returned %r" % (what, v), case, mechanism="retry-after-fault-wrong-value")
                continue
            if ctype != "none":
                try:
                    lv = dds.load(path)
                    if not SM.values_equal(lv, expected):
                        rep.violate("%s: load gives %r" % (what, lv), case, mechanism="retry-after-fault-wrong-value")
                except BaseException as e:
                    rep.violate("%s: load raised %s: %s" % (what, type(e).__name__, str(e)[:120]), case, mechanism="retry-after-fault-load-raised")
                if ctype == "full":
                    obj = os.path.join(root, "dbfs", "data", path.lstrip("/"))
                    if not os.path.exists(obj):
                        rep.violate("%s: no copy under the data directory" % what, case, mechanism="full-copy-missing")
            rep.nontriv(("fault", ctype, tag, n, second_handle))
    return rep


def reads_earlier_str_ascii():
    # a kept function that loads paths committed by earlier sessions
    return ("reads", dds.load("/hand/full_str_ascii"), dds.load("/hand/links_str_ascii"))


def reads_earlier_nested():
    return ("reads", dds.load("/hand/full_nested"), dds.load("/hand/links_nested"))


def handover_job(arg):
    """Directories on which earlier sessions committed paths with 'full' and 'links_only' are opened with each commit
    type in turn: the records are there, so loads (direct and inside a kept function) work under every type; a store
    with commit type 'none' writes nothing under the data directory."""
    tag, later = arg
    import dds
    from vp.fakedbutils import FakeDbutils

    rep = core.Report("C19")
    rep.evaluations = 1
    dds.accept_module("checks")
    case = {"handover": True, "tag": tag, "later": later}
    want = produce_a(tag)
    with core.Scratch("vp_c19h_") as root:
        for ct, pth in (("full", "/hand/full_" + tag), ("links_only", "/hand/links_" + tag)):
            dds.set_store("dbfs", internal_dir="dbfs:/int", data_dir="dbfs:/data", dbutils=FakeDbutils(root), commit_type=ct)
            dds.keep(pth, produce_a, tag)
        before = SM.walk(os.path.join(root, "dbfs", "data"))
        dds.set_store("dbfs", internal_dir="dbfs:/int", data_dir="dbfs:/data", dbutils=FakeDbutils(root), commit_type=later)
        for pth in ("/hand/full_" + tag, "/hand/links_" + tag):
            rep.count("loads")
            try:
                v = dds.load(pth)
                if not SM.values_equal(v, want):
                    rep.violate("store opened with commit_type=%r on directories of earlier sessions: load(%s) gives %r" % (later, pth, v), case, mechanism="earlier-record-not-served")
            except BaseException as e:
                rep.violate("store opened with commit_type=%r on directories of earlier sessions: load(%s) raised %s: %s (the record exists)" % (later, pth, type(e).__name__, str(e)[:120]), case, mechanism="earlier-record-not-served")
        rep.count("keeps")
        try:
            v = dds.keep("/hand/reader_" + tag, {"str_ascii": reads_earlier_str_ascii, "nested": reads_earlier_nested}[tag])
            if not SM.values_equal(v, ("reads", want, want)):
                rep.violate("commit_type=%r: a kept function that loads paths of earlier sessions returned %r" % (later, v), case, mechanism="earlier-record-not-served")
        except BaseException as e:
            rep.violate("commit_type=%r: keep of a function that loads paths of earlier sessions raised %s: %s" % (later, type(e).__name__, str(e)[:120]), case, mechanism="earlier-record-not-served")
        if later == "none" and SM.walk(os.path.join(root, "dbfs", "data")) != before:
            rep.violate("a store with commit type 'none' changed the data directory", case, mechanism="none-commit-wrote-data")
    rep.nontriv(("handover", tag, later))
    return rep


LEGACY = {"str": "dbfs.string", "bytes": "dbfs.bytes", "pickle": "dbfs.pickle"}


def legacy_job(arg):
    tag, kind = arg
    from dds.codecs.databricks import DBFSStore, DBFSURI, CommitType
    from vp.fakedbutils import FakeDbutils

    rep = core.Report("C19")
    rep.evaluations = 1
    with core.Scratch("vp_c19l_") as root:
        dbu = FakeDbutils(root)
        mk = lambda: DBFSStore(DBFSURI.parse("dbfs:/int"), DBFSURI.parse("dbfs:/data"), dbu, CommitType.FULL)
        st = mk()
        v = SM.result_value(tag)
        key = SM.key_for(("legacy", tag))
        st.store_blob(key, v, None)
        metap = os.path.join(root, "dbfs", "int", "blobs", key + ".meta")
        meta = json.load(open(metap))
        cur = meta["protocol"]
        expected_cur = {"str": "local.string", "bytes": "local.bytes", "pickle": "local.pickle"}[kind]
        if cur != expected_cur:
            rep.violate("value %s written with codec %r, expected %r" % (tag, cur, expected_cur), {"tag": tag}, mechanism="unexpected-current-codec")
        meta["protocol"] = LEGACY[kind]
        with open(metap, "w") as f:
            json.dump(meta, f)
        from checks import c17

        UserAFileCodec, UserBCodec, _, _ = c17._mk_codecs()
        for label, prepare in (("a new store object", lambda s_: None),
                               ("a new store object on which a user file codec was registered afterwards", lambda s_: s_.codec_registry().add_file_codec(UserAFileCodec())),
                               ("a new store object on which user codecs of both kinds were registered afterwards", lambda s_: (s_.codec_registry().add_codec(UserBCodec()), s_.codec_registry().add_file_codec(UserAFileCodec())))):
            st2 = mk()
            try:
                prepare(st2)
                r = st2.fetch_blob(key)
                rep.count("legacy_reads")
                if not SM.values_equal(r, v):
                    rep.violate("blob of %s (%s) with legacy ref %r read through %s decoded as %r" % (tag, kind, LEGACY[kind], label, repr(r)[:80]), {"tag": tag, "kind": kind}, mechanism="legacy-alias-wrong-codec")
            except BaseException as e:
                rep.violate("blob of %s (%s) with legacy ref %r read through %s: fetch raised %s: %s" % (tag, kind, LEGACY[kind], label, type(e).__name__, str(e)[:100]), {"tag": tag, "kind": kind}, mechanism="legacy-alias-wrong-codec")
        rep.nontriv(("legacy", tag, kind))
    return rep


def run(tier, seed):
    rep = core.Report("C19")
    rng = core.rng_for(seed, "c19")
    rep.rule = (
        "commit types: the documented names %r in lower/upper/capitalised form plus the default (None); store directories with plain names and names containing '#', '?', ';', spaces and non-ASCII letters; per store a sequence of keeps (value types %r, "
        "re-keeps of a path with changed code, nested paths) each followed by inspection of the fake dbutils' backing tree and loads of every path kept so far; "
        "legacy: each value kind (str/bytes/pickle) stored, its .meta rewritten to dbfs.string/dbfs.bytes/dbfs.pickle, read by a new store object; faults: one keep with a transient failure injected before each dbutils call in turn, then the same keep again (same or new store object); workers forked from a process that already used the store load different paths at the same time (downloads lined up by a barrier in the fake dbutils). "
        "distinct_nontrivial = distinct (commit type spelling, keep sequence) runs with >=2 kept paths + distinct (value, legacy ref) reads."
        % (DOCUMENTED, TAGS)
    )
    jobs = []
    nseq = 2 if tier == "quick" else 8
    for c in DOCUMENTED + ["default"]:
        sps = [None] if c == "default" else _spellings(c, tier)
        for sp in sps:
            for i in range(nseq):
                seq = []
                tags = list(TAGS)
                rng.shuffle(tags)
                paths = ["/t/%s" % t for t in tags[:3]] + ["/.hidden/%s" % tags[3], "/deep/.er/%s" % tags[4], "/.top_%s" % tags[5]]
                # names that differ only by a character that some file systems dislike and by its usual replacements
                paths += ["/q/q1:eu", "/q/q1_eu", "/q/q1%3Aeu"]
                for p, t in zip(paths, tags + tags):
                    seq.append((p, "a", t))
                # re-keep two of them with changed code, then back
                seq.append((paths[0], "b", tags[0]))
                seq.append((paths[1], "b", tags[1]))
                seq.append((paths[0], "a", tags[0]))
                jobs.append(("commit", ("full" if c == "default" else c, sp, seq, DIR_NAMES[len(jobs) % len(DIR_NAMES)])))
    for tag, kind in (("str_ascii", "str"), ("str_nonascii", "str"), ("str_empty", "str"), ("str_bom", "str"), ("str_newlines", "str"), ("bytes_plain", "bytes"), ("bytes_empty", "bytes"), ("bytes_all", "bytes"),
                      ("none", "pickle"), ("int", "pickle"), ("nested", "pickle"), ("obj", "pickle")):
        jobs.append(("legacy", (tag, kind)))

    for ct in ("full", "links_only", "none"):
        for ti, tag in enumerate(("str_ascii", "bytes_plain", "nested", "frame0") if tier != "quick" else ("str_ascii", "nested", "frame0")):
            jobs.append(("fault", (ct, tag, ti % 2 == 1)))

    # worker processes forked from a process that has already used its DBFS store read different paths at the same time
    for ct in ("full", "links_only"):
        jobs.append(("fork", (None, ["str_ascii", "str_nonascii", "nested"], ct)))
    jobs.append(("fork", (2, ["bytes_plain", "obj"], "full")))

    for later in ("none", "links_only", "full"):
        for tag in ("str_ascii", "nested"):
            jobs.append(("handover", (tag, later)))

    def dispatch(j):
        if j[0] == "handover":
            return handover_job(j[1])
        if j[0] == "fork":
            from checks import c17

            return c17.fork_job(j[1], prop="C19")
        return {"commit": commit_job, "legacy": legacy_job, "fault": fault_job}[j[0]](j[1])

    results = core.fork_map(dispatch, jobs, timeout=600)
    for j, r in zip(jobs, results):
        if isinstance(r, core.JobFailed):
            rep.inconclusive.append("job %r: %r" % (j[0], r))
            continue
        rep.merge(r)
        if j[0] == "commit":
            rep.bump("commit_type_spelling", repr(j[1][1]))
    rep.sample({"commit_sequence": jobs[0][1][2]})
    rep.assumptions = ["a directory-backed fake of dbutils.fs (head/put/cp/rm) stands in for the Databricks runtime; Spark frames are not covered (no pyspark)"]
    return rep


def replay(payload):
    rep = core.Report("C19")
    c = payload["case"]
    if c.get("fault"):
        rep.merge(fault_job((c["commit_type"], c["tag"], c["second_handle"])))
        return rep
    if c.get("handover"):
        rep.merge(handover_job((c["tag"], c["later"])))
        return rep
    if c.get("fork"):
        from checks import c17

        rep.merge(c17.fork_job((c["cache"], c["tags"], c.get("commit_type")), prop="C19"))
        return rep
    if "seq" in c or "commit_type" in c:
        sp = c["commit_type"]
        ct = (sp or "full").lower()
        seq = [tuple(x) for x in c.get("seq", [("/t/x", "a", "str_ascii")])]
        rep.merge(commit_job((ct, sp, seq, tuple(c.get("dirs") or DIR_NAMES[0]))))
    else:
        rep.merge(legacy_job((c["tag"], c["kind"])))
    return rep
