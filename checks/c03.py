"""
C03 - signatures depend only on program content, never on the environment.

Monitor: the path -> signature map handed to Store.sync_paths (captured by a wrapping Store) in
each environment variant, each in a brand-new interpreter.
Oracle A: the maps of all variants of one program are equal.
Oracle B: maps of the committed corpus (corpus/pinned.json: program files + pinned maps) are
byte-identical to what the current tree computes.
"""
import json
import os
import pickle
import subprocess
import sys

from vp import core, gen, progs

CORPUS = os.path.join(core.VERIF_DIR, "corpus", "pinned.json")


def _seg(p, root, store_kind, store_dir, entry_opts=None, options=None, pre=(), style="eval", chdir=None, post_same=False, edit_revert=None, in_thread=False):
    steps = []
    accept = [p["pkg"]] + gen.lazy_modules(p)
    for q in pre:
        accept.append(q["pkg"])
        accept += gen.lazy_modules(q)
        steps.append({"write": gen.render(q), "how": "import", "modules": gen.import_order(q), "entry": _entry(q, "eval", None)})
    if edit_revert is not None:
        steps.append({"write": gen.render(edit_revert), "how": "import", "modules": gen.import_order(edit_revert), "entry": _entry(edit_revert, "eval", None)})
        steps.append({"write": gen.render(p), "how": "reload", "modules": gen.import_order(p), "lazy_modules": gen.lazy_modules(p), "entry": _entry(p, style, entry_opts)})
    else:
        steps.append({"write": gen.render(p), "how": "import", "modules": gen.import_order(p), "lazy_modules": gen.lazy_modules(p), "entry": _entry(p, style, entry_opts)})
    if post_same:
        steps.append({"how": "none", "entry": _entry(p, style, entry_opts)})
    if in_thread:
        for st in steps:
            st["entry"]["in_thread"] = True
    return {"mode": "impl", "root": root, "accept": accept, "steps": steps, "store": {"kind": store_kind, "dir": store_dir}, "options": options or {}, "chdir": chdir}


def _entry(p, style, opts):
    f = p["fns"][p["entry"]]
    e = {"style": style, "module": gen.modname(p, f["module"]), "func": f["name"], "args_src": "()"}
    if opts:
        e["options"] = opts
    return e


def run_variant(arg):
    """Runs one variant in a new interpreter; returns the signature map of the target program's evaluation."""
    name, seg, hashseed, which_step = arg
    with core.Scratch("vp_c03v_") as td:
        sp, op = os.path.join(td, "seg.json"), os.path.join(td, "out.pkl")
        with open(sp, "w") as f:
            json.dump(seg, f)
        env = dict(os.environ)
        env["PYTHONHASHSEED"] = hashseed
        env["PYTHONPATH"] = core.repo_dir() + os.pathsep + core.VERIF_DIR
        env.update(seg.get("_env") or {})
        try:
            r = subprocess.run([sys.executable, "-m", "vp.segcli", sp, op], env=env, cwd=core.VERIF_DIR, timeout=300, capture_output=True, text=True)
        except subprocess.TimeoutExpired:
            return (name, "timeout", None)
        if r.returncode != 0 or not os.path.exists(op):
            return (name, "failed rc=%s %s" % (r.returncode, r.stderr[-400:]), None)
        with open(op, "rb") as f:
            out = pickle.load(f)
    st = out["steps"][which_step]
    if "result" in st and st["result"][0] == "exc" and st["result"][4]:
        # refused by dds with an error code: an outcome that must not depend on the environment either
        return (name, None, {"refused": [st["result"][1], st["result"][3]], "sync": {}, "all_paths": {}})
    if "result" not in st or st["result"][0] != "ok":
        return (name, "evaluation failed: %r" % (st.get("result", st.get("setup_error")),), None)
    m = {}
    for s in st.get("syncs", []):
        for p_, k in s:
            m[p_] = k
    ap = {}
    for s in st.get("all_paths", []):
        for p_, k in s:
            ap[p_] = k
    return (name, None, {"sync": m, "all_paths": ap})


def program_job(arg):
    """All variants of one program."""
    idx, p, others, tier = arg
    rep = core.Report("C03")
    with core.Scratch("vp_c03_") as td:
        roots = {}
        for rn in ("rootA", "deep/er/rootB"):
            roots[rn] = os.path.join(td, rn)
            os.makedirs(roots[rn])
        os.symlink(roots["rootA"], os.path.join(td, "linkroot"))
        sd = lambda n: os.path.join(td, "store_" + n)
        R = roots["rootA"]
        variants = []

        def add(name, seg, hs="0", step=-1):
            variants.append((name, seg, hs, step))

        add("base", _seg(p, R, "local", sd("base")))
        for hs in ("1", "2", "random"):
            add("hashseed=" + hs, _seg(p, R, "local", sd("hs" + hs)), hs)
        add("cwd=/", _seg(p, R, "local", sd("cwd1"), chdir="/"))
        add("cwd=pkgdir", _seg(p, R, "local", sd("cwd2"), chdir=None))
        add("other_location", _seg(p, roots["deep/er/rootB"], "local", sd("loc")))
        add("symlinked_location", _seg(p, os.path.join(td, "linkroot"), "local", sd("sym")))
        has_loads = any(st["k"] == "load" for f in p["fns"].values() for st in f["stmts"])
        for sk in ("memory", "local_lru", "noop", "dbfs"):
            if sk == "noop" and has_loads:
                continue  # the noop store cannot serve a loaded path (its documentation says so)
            add("store=" + sk, _seg(p, R, sk, sd(sk)))
        add("extra_debug_arg_on", _seg(p, R, "local", sd("dbg1"), entry_opts={"dds_extra_debug": True}))
        add("extra_debug_option_off", _seg(p, R, "local", sd("dbg2"), options={"extra_debug": False}))
        add("graph_export", _seg(p, R, "local", sd("gr"), entry_opts={"dds_export_graph": os.path.join(td, "g.dot")}))
        if p["fns"][p["entry"]]["data_path"] is not None:
            # only a data-function entry is one evaluation either way (a plain entry called directly turns every
            # inner keep into its own evaluation whose run-time arguments are then known by value)
            add("entry_call", _seg(p, R, "local", sd("call"), style="call"))
        if p.get("_alt_entry"):
            # another function of the same program was evaluated before (same process, same store)
            add("after_alternative_entry_same_store", _seg(p, R, "local", sd("alt"), pre=[dict(p, entry=p["_alt_entry"])]))
        add("second_evaluation_same_process", _seg(p, R, "local", sd("twice"), post_same=True))
        # the evaluation runs in a thread other than the one that configured dds (store, options, accepted modules)
        add("worker_thread", _seg(p, R, "local", sd("thr"), in_thread=True))
        # the same with non-default values of the options that decide what is tracked (a group of its own: these
        # options legitimately change signatures, so its members are compared with each other, not with the base run)
        oo = {"accept_list": False, "accept_dict": False, "hash.max_sequence_size": 1000}
        add("opts:base", _seg(p, R, "local", sd("ob"), options=oo))
        add("opts:worker_thread", _seg(p, R, "local", sd("ot"), options=oo, in_thread=True))
        for k in ((1, 3) if tier == "quick" else (1, 3, 8)):
            add("after_%d_other_evaluations" % k, _seg(p, R, "local", sd("pre%d" % k), pre=others[:k]))
        pe, _ = gen.e_set_const(p, p["entry"])
        add("after_edit_and_revert_same_process", _seg(p, R, "local", sd("er"), edit_revert=pe))
        # comment-only edits (the compiled code does not change) of every function, then back to the original text
        pc = p
        for fid in gen.reach(p, p["entry"]):
            pc, _ = gen.e_comment(pc, fid)
        add("after_comment_edit_and_revert_same_process", _seg(p, R, "local", sd("cr"), edit_revert=pc))
        fix = dict((v[0], v) for v in variants)
        # the cwd=pkgdir variant needs the package directory to exist before chdir: write happens in-process, so chdir to root instead
        fix["cwd=pkgdir"][1]["chdir"] = R
        results = [run_variant(v) for v in variants]
    base = None
    grp = {}
    for name, err, m in results:
        rep.count("variants_run")
        if err:
            rep.inconclusive.append("program %d variant %s: %s" % (idx, name, err))
            continue
        if name == "base":
            base = m
        if name.startswith("opts:"):
            grp[name] = m
    if base is None:
        return rep
    # the group evaluated under non-default options: same outcome and same signatures within the group
    results = [r for r in results if not r[0].startswith("opts:")]
    if len(grp) == 2:
        rep.count("map_comparisons")
        rep.bump("variant", "opts:worker_thread")
        ga, gb = grp["opts:base"], grp["opts:worker_thread"]
        if ga.get("refused") != gb.get("refused") or ga["all_paths"] != gb["all_paths"] or ga["sync"] != gb["sync"]:
            diff = sorted(k for k in set(ga["all_paths"]) | set(gb["all_paths"]) if ga["all_paths"].get(k) != gb["all_paths"].get(k))
            rep.violate("program %d (%s): with non-default options, the evaluation in a worker thread differs from the one in the configuring thread (refused: %r / %r; paths %r)"
                        % (idx, p["pkg"], gb.get("refused"), ga.get("refused"), diff[:4]), {"program": p, "variant": "opts:worker_thread", "base": ga, "got": gb}, mechanism="variant:opts:worker_thread")
    if base.get("refused") or any(m and m.get("refused") for _, _, m in results):
        # a program that dds refuses (coded error): refused in the same way in every environment, or accepted in none
        rep.evaluations = len(results)
        kinds = {}
        for name, err, m in results:
            if err:
                continue
            rep.count("refusal_comparisons")
            kinds.setdefault(repr(m.get("refused")) if m.get("refused") else "accepted:" + gen.h(sorted(m["all_paths"].items())), []).append(name)
        if len(kinds) > 1:
            rep.violate("program %d (%s): outcome depends on the environment: %s" % (idx, p["pkg"], "; ".join("%s in %s" % (k[:60], v[:4]) for k, v in sorted(kinds.items()))),
                        {"program": p, "outcomes": dict((k, v) for k, v in kinds.items())}, mechanism="variant:refusal")
        else:
            rep.nontriv(("c03refused", gen.h(gen.render(p))))
        return rep
    if not base["sync"]:
        rep.inconclusive.append("program %d: no sync_paths observed" % idx)
        return rep
    rep.evaluations = len(results)
    for name, err, m in results:
        if err or name == "base":
            continue
        rep.count("map_comparisons")
        rep.bump("variant", name.split("=")[0] if "hashseed" in name or "store" in name else name)
        a = m["sync"] if name != "entry_call" else dict((k, v) for k, v in m["sync"].items())
        b = base["sync"]
        if name == "store=noop":
            # the no-op store holds no blob, so nothing is handed to sync_paths: compare the maps computed by the analysis
            a, b = m["all_paths"], dict((k, v) for k, v in base["all_paths"].items())
            if not a:
                rep.inconclusive.append("program %d: signature map of the noop variant not observed" % idx)
                continue
        if name == "entry_call":
            # calling the entry directly evaluates each top-level keep on its own: compare per path
            b = dict((k, v) for k, v in b.items() if k in a)
        if a != b:
            diff = sorted(k for k in set(a) | set(b) if a.get(k) != b.get(k))
            rep.violate("program %d (%s): signatures under variant '%s' differ from the base run for paths %r" % (idx, p["pkg"], name, diff[:4]),
                        {"program": p, "variant": name, "base": b, "got": a}, mechanism="variant:" + name.split("=")[0])
    rep.nontriv(("c03", gen.h(gen.render(p))))
    return rep


def self_accept_job(arg):
    """A library package that accepts itself when imported (dds.accept_module in its __init__) and is used through a
    function-local import: the signature of the kept path is the same whether the package is first imported by the
    analysis itself, was imported by the driver beforehand, or the evaluation is the second one of the process."""
    idx = arg
    rep = core.Report("C03")
    L, P = "c3selflib%d" % idx, "c3selfpipe%d" % idx
    files = {
        L + "/__init__.py": "import dds\n\ndds.accept_module(%r)\nfrom . import feat\n" % L,
        L + "/feat.py": "from vp import vlog\nLIMIT = 3\n\n\ndef scale(x):\n    vlog.hit('scale')\n    return ('scale', x, 7, LIMIT)\n",
        P + "/__init__.py": "# pkg\n",
        P + "/top.py": "import dds\nfrom vp import vlog\n\n\ndef K():\n    vlog.hit('K')\n    import %s\n    return ('K', %s.feat.scale(3))\n\n\ndef main():\n    return ('main', dds.keep('/c3/self', K))\n" % (L, L),
    }
    ent = {"style": "eval", "module": P + ".top", "func": "main", "args_src": "()"}
    with core.Scratch("vp_c03s_") as td:
        root = os.path.join(td, "code")
        os.makedirs(root)

        def seg(name, modules, twice=False):
            steps = [{"write": files, "how": "import", "modules": modules, "entry": ent}] + ([{"how": "none", "entry": ent}] if twice else [])
            return {"mode": "impl", "root": root, "accept": [P], "steps": steps, "store": {"kind": "local", "dir": os.path.join(td, "store_" + name)}, "options": {}, "chdir": None}

        variants = [("first-import-by-the-analysis", seg("lazy", [P + ".top"]), "0", -1), ("second-evaluation-same-process", seg("twice", [P + ".top"], twice=True), "0", -1),
                    ("package-imported-beforehand", seg("early", [L, P + ".top"]), "0", -1), ("first-import-by-the-analysis/hashseed=1", seg("lazy1", [P + ".top"]), "1", -1)]
        results = [run_variant(v) for v in variants]
    sigs = {}
    for name, err, m in results:
        rep.count("variants_run")
        if err or not m or m.get("refused"):
            rep.inconclusive.append("self-accepting package, variant %s: %s" % (name, err or m))
            continue
        rep.count("map_comparisons")
        sigs[name] = m["all_paths"].get("/c3/self")
    rep.evaluations = len(results)
    if len(set(sigs.values())) > 1:
        rep.violate("a package that accepts itself on import, used through a function-local import: the signature of /c3/self depends on when the package was first imported: %r" % dict((k, v and v[:10]) for k, v in sigs.items()),
                    {"self_accept": True, "idx": idx}, mechanism="variant:self-accepting-package")
    elif len(sigs) == len(results):
        rep.nontriv(("c03self", idx))
    return rep


def tz_job(arg):
    """A kept call with date / time arguments evaluated in interpreters with different local time zones (TZ): one signature."""
    idx = arg
    rep = core.Report("C03")
    P = "c3tz%d" % idx
    files = {P + "/__init__.py": "# pkg\n",
             P + "/top.py": "import dds\nfrom vp import vlog\n\n\ndef at(when, day, span=None):\n    vlog.hit('at')\n    return ('at', when.isoformat(), day.isoformat(), span)\n"}
    ent = {"style": "keep", "path": "/c3/tz", "module": P + ".top", "func": "at", "args_src": "(datetime.datetime(2024, 1, 2, 12, 0), datetime.date(2024, 1, 2))", "kwargs_src": "{'span': datetime.timedelta(hours=3)}"}
    with core.Scratch("vp_c03z_") as td:
        root = os.path.join(td, "code")
        os.makedirs(root)
        variants = []
        for tz in (None, "UTC", "JST-9", "EST5EDT", "Asia/Tokyo"):
            seg = {"mode": "impl", "root": root, "accept": [P], "steps": [{"write": files, "how": "import", "modules": [P + ".top"], "entry": ent}], "store": {"kind": "local", "dir": os.path.join(td, "store_%s" % (tz or "unset").replace("/", "_"))},
                   "options": {}, "chdir": None, "_env": {"TZ": tz} if tz else {}}
            variants.append(("TZ=%s" % tz, seg, "0", -1))
        results = [run_variant(v) for v in variants]
    sigs = {}
    for name, err, m in results:
        rep.count("variants_run")
        if err or not m:
            rep.inconclusive.append("time-zone job, variant %s: %s" % (name, err or m))
            continue
        rep.count("map_comparisons")
        sigs[name] = m.get("refused") or m["all_paths"].get("/c3/tz")
    rep.evaluations = len(results)
    if len(set(map(repr, sigs.values()))) > 1:
        rep.violate("a kept call with datetime / date / timedelta arguments: the outcome depends on the time zone of the process: %r" % dict((k, (v[:10] if isinstance(v, str) else v)) for k, v in sigs.items()),
                    {"tz": True, "idx": idx}, mechanism="variant:time-zone")
    elif len(sigs) == len(results):
        rep.nontriv(("c03tz", idx))
    return rep


def corpus_job(arg):
    entry = arg
    rep = core.Report("C03")
    with core.Scratch("vp_c03c_") as td:
        seg = {"mode": "impl", "root": td, "accept": entry["accept"], "store": {"kind": "memory", "dir": td}, "steps": [{"write": entry["files"], "how": "import", "modules": entry["modules"], "entry": entry["entry"]}]}
        name, err, m = run_variant(("corpus", seg, "0", -1))
    rep.evaluations = 1
    rep.count("corpus_programs")
    if err:
        rep.violate("corpus program %s no longer evaluates: %s" % (entry["name"], err), {"corpus": entry["name"]}, mechanism="corpus-evaluation-failed")
        return rep
    if m["sync"] != entry["pinned"]:
        diff = sorted(k for k in set(m["sync"]) | set(entry["pinned"]) if m["sync"].get(k) != entry["pinned"].get(k))
        rep.violate("corpus program %s: signatures differ from the pinned ones for paths %r" % (entry["name"], diff[:5]), {"corpus": entry["name"], "got": m["sync"], "pinned": entry["pinned"]},
                    mechanism="pinned-signature-changed")
    rep.nontriv(("corpus", entry["name"]))
    return rep


def programs_for(tier, seed):
    rng = core.rng_for(seed, "c03")
    n = 24 if tier == "quick" else 150
    ps = []
    for i in range(n):
        if i % 3 == 0:
            lay = ["three", "one", "two", "deep"][(i // 3) % 4]
            form = gen.IMPORT_FORMS[(i // 3) % len(gen.IMPORT_FORMS)]
            # every other skeleton with function-local imports (dds, and a top-level module nothing else imports)
            p = progs.base_program("c3b%d" % i, layout=lay, import_form=form, entry_data=(i % 2 == 0), local=(i % 6 == 3), setvar=(i % 6 == 0))
            # the variable is sometimes named like a builtin that functions of other modules / programs call
            # (the programs evaluated earlier in the "after_k_other_evaluations" variants do; this one does not)
            vname = ["V3", "max", "filter", "format"][(i // 3) % 4]
            vid = gen.add_var(p, p["_ids"]["leaf"], vname, list(gen.VAR_KINDS)[(7 + i // 3) % len(gen.VAR_KINDS)])
            p["order"][p["_ids"]["leaf"]].remove(("var", vid))
            p["order"][p["_ids"]["leaf"]].insert(0, ("var", vid))
            p["fns"][p["_ids"]["h2"]]["reads"].append([vid, "bare"])
        else:
            p = progs.random_program(rng, "c3r%d" % i)
            while len(gen.kept_nodes(p)) < 2:
                p = progs.random_program(rng, "c3r%d" % i)
        ps.append(p)
    # one path kept by a helper that two callers reach with different arguments (two call contexts for one path)
    for j in range(2):
        p = gen.new_program("c3k%d" % j)
        m = gen.add_module(p, "km")
        build = gen.add_fn(p, m, "build", params=[("n", None)], const=5)
        fetch = gen.add_fn(p, m, "fetch", params=[("n", None)], const=6)
        p["fns"][fetch]["stmts"] = [gen.s_keep("/ctx/data", build, [gen.param("n")])]
        ra = gen.add_fn(p, m, "report_a", const=7)
        p["fns"][ra]["stmts"] = [gen.s_call(fetch, [gen.lit("1")])]
        rb = gen.add_fn(p, m, "report_b", const=8)
        p["fns"][rb]["stmts"] = [gen.s_call(fetch, [gen.lit("2")])]
        main = gen.add_fn(p, m, "kmain", const=9)
        p["fns"][main]["stmts"] = [gen.s_call(ra, []), gen.s_call(rb, [])] if j == 0 else [gen.s_keep("/ctx/ra", ra, []), gen.s_keep("/ctx/rb", rb, [])]
        p["entry"] = main
        p["_alt_entry"] = rb
        ps.append(p)
    # programs that dds refuses with a coded error (a parameter default of a type it cannot hash: a sentinel object, a
    # function): refused identically everywhere
    for j, dsrc in enumerate(("_MISSING", "_fallback")):
        p = progs.base_program("c3x%d" % j)
        ids = p["_ids"]
        p["fns"][ids["A"]]["params"][1][1] = dsrc
        p["fns"][p["entry"]]["stmts"][0]["args"] = [gen.lit("1")]
        mid = p["fns"][ids["A"]]["module"]
        p["extras"]["x_sentinel"] = "_MISSING = object()\n\n\ndef _fallback():\n    return 0\n"
        p["order"][mid].insert(0, ("extra", "x_sentinel"))
        p["expect_refusal"] = True
        ps.append(p)
    return ps


def run(tier, seed):
    rep = core.Report("C03")
    rep.rule = (
        "oracle A: per generated program (matrix skeletons over 4 layouts x 8 import forms x variable kinds, and random DAG programs) the Store.sync_paths map is captured in ~20 environment variants, "
        "each in a brand-new interpreter: PYTHONHASHSEED 1/2/random, cwd, package at another location and through a symlink, store kinds memory/local+cache/noop/DBFS, extra_debug via argument and option, "
        "graph export, direct call vs eval, second evaluation, after 1/3/8 evaluations of other programs in the same process, after edit+revert in the same process; all maps must equal the base run. "
        "oracle B: the committed corpus (corpus/pinned.json, %s) must give byte-identical maps. distinct_nontrivial = distinct programs (by rendered text) whose variants were all compared + corpus programs."
        % ("present" if os.path.exists(CORPUS) else "MISSING")
    )
    ps = programs_for(tier, seed)
    others = [progs.random_program(core.rng_for(seed, "c03o", i), "c3o%d" % i) for i in range(8)]
    # the program evaluated right before calls Python builtins whose names some target programs use for module variables
    for f in others[0]["fns"].values():
        f["uses_builtins"] = True
    # ... and reads tuples that are equal to, but not the same as, tuples of the target programs ((1.0, 2.0) == (1, 2))
    for nm, val in (("OV_FLOATS", "(1.0, 2.0)"), ("OV_MIXED", "(1, 2.0)")):
        ov = gen.add_var(others[0], others[0]["fns"][others[0]["entry"]]["module"], nm, "tuplef", value=val)
        others[0]["fns"][others[0]["entry"]]["reads"].append([ov, "bare"])
    jobs = [("prog", (i, p, others, tier)) for i, p in enumerate(ps)]
    if os.path.exists(CORPUS):
        with open(CORPUS) as f:
            corpus = json.load(f)
        for e in corpus["programs"]:
            jobs.append(("corpus", e))
    else:
        rep.inconclusive.append("pinned corpus missing")

    jobs.append(("self", seed))
    jobs.append(("tz", seed))

    def dispatch(j):
        return {"prog": program_job, "corpus": corpus_job, "self": self_accept_job, "tz": tz_job}[j[0]](j[1])

    results = core.fork_map(dispatch, jobs, timeout=1200)
    for j, r in zip(jobs, results):
        if isinstance(r, core.JobFailed):
            rep.inconclusive.append("job %s: %r" % (j[0], r))
            continue
        rep.merge(r)
    rep.sample({"program_pkg": ps[0]["pkg"], "variants": ["base", "hashseed=1", "cwd=/", "other_location", "store=noop", "graph_export", "after_3_other_evaluations", "after_edit_and_revert_same_process"]})
    rep.assumptions = ["'across library changes' is monitored from the pin (corpus/pinned.json) onwards", "programs are run in packages; notebook-cell redefinition is covered by C01's cell histories"]
    return rep


def replay(payload):
    rep = core.Report("C03")
    c = payload["case"]
    if c.get("self_accept"):
        rep.merge(self_accept_job(c["idx"]))
        return rep
    if c.get("tz"):
        rep.merge(tz_job(c["idx"]))
        return rep
    if "program" in c:
        others = [progs.random_program(core.rng_for(0, "c03o", i), "c3o%d" % i) for i in range(8)]
        for f in others[0]["fns"].values():
            f["uses_builtins"] = True
        for nm, val in (("OV_FLOATS", "(1.0, 2.0)"), ("OV_MIXED", "(1, 2.0)")):
            ov = gen.add_var(others[0], others[0]["fns"][others[0]["entry"]]["module"], nm, "tuplef", value=val)
            others[0]["fns"][others[0]["entry"]]["reads"].append([ov, "bare"])
        rep.merge(program_job((0, c["program"], others, "thorough")))
    else:
        with open(CORPUS) as f:
            corpus = json.load(f)
        for e in corpus["programs"]:
            if e["name"] == c["corpus"]:
                rep.merge(corpus_job(e))
    return rep
