"""
C10 - a failing user function is never cached and leaves dds and the store clean.

Monitor: identity of the exception caught at the call site (the generated function registers the
object it raises in the untracked vlog module), the calls recorded by the wrapping Store during
the failed evaluation, loads of every path before/after, and value + execution log of the
following evaluations in the same process.
"""
import pickle

from vp import core, gen, progs, e1

EXC = ["ValueError", "vlog.CustomError", "KeyboardInterrupt", "SystemExit", "GeneratorExit", "vlog.CustomBase", "KeyError", "IndexError", "AttributeError", "StopIteration", "AssertionError", "FileNotFoundError", "TypeError", "RecursionError", "vlog.FalsyError", "vlog.EmptyAggregate"]


def ancestors_and_self(p, fid):
    """kept nodes (paths) whose function reaches fid (they were waiting for it), incl. the node of fid itself."""
    out = set()
    for path, n in gen.kept_nodes(p).items():
        if n["fn"] and fid in gen.reach(p, n["fn"], runtime=True):
            out.add(path)
    return out


def case_job(arg):
    p0, fid, cls, when, store, new_proc, other, populate = arg[:8]
    msg = arg[8] if len(arg) > 8 else "text"
    rep = core.Report("C10")
    rep.evaluations = 1
    v0 = p0
    v1, _ = gen.e_set_const(p0, fid, 5000)
    v1["fns"][fid]["fail"] = {"cls": cls, "when": when, "msg": msg}
    v2 = gen.clone(v1)
    del v2["fns"][fid]["fail"]
    if not populate:
        # fresh store: the sub-results that complete before the failure are computed (and may be stored) by the failed evaluation itself
        v0 = gen.clone(other)
        v0["pkg"] = other["pkg"] + "_first"
    versions = [v0, v1, v2, other]
    hist = [{"v": 0, "new_process": True}, {"v": 1, "how": "reload" if populate else "import"}, {"v": 1, "how": "reload"}, {"v": 2, "how": "reload"}, {"v": 3, "how": "import"}, {"v": 2, "how": "reload"}]
    if new_proc:
        hist[3]["new_process"] = True
    case = progs._case("fail:%s/%s/%s" % (p0["fns"][fid]["name"], cls, when), versions, {}, hist, store)
    obs = e1.run_case(case)
    if obs["failed"]:
        rep.inconclusive.append(obs["failed"])
        return rep
    for o in obs["steps"]:
        if "setup_error" in o["impl"] or "setup_error" in o["ref"]:
            rep.inconclusive.append("setup error: %s" % (o["impl"].get("setup_error") or o["ref"].get("setup_error"))[-300:])
            return rep
    fname = p0["fns"][fid]["name"]
    desc = "failing function %s raising %s (%s) at %s on %s" % (fname, cls, {"text": "with a message", "none": "without arguments", "empty": "with an empty message", "multiline": "with a two-line message", "chained": "with an explicit cause", "while_handling": "while handling another error"}[msg], when, store)
    cz = {"case": case, "fn": fname, "cls": cls}

    def bad(what, mech=None):
        rep.violate("%s: %s" % (desc, what), cz, mechanism=mech)

    s0 = obs["steps"][0]["impl"]
    if s0["result"][0] != "ok":
        bad("populating evaluation failed: %r" % (s0["result"][1:3],), "populate-failed")
        return rep
    waiting = ancestors_and_self(v1, fid)
    nodes1 = gen.kept_nodes(v1)
    for si in (1, 2):
        im, rf = obs["steps"][si]["impl"], obs["steps"][si]["ref"]
        r = im["result"]
        rep.count("failed_evaluations")
        if rf["result"][0] != "exc":
            rep.inconclusive.append("reference did not raise")
            return rep
        if r[0] != "exc":
            bad("evaluation returned %s although %s raises" % (r[2][:80], fname), "failure-swallowed")
            continue
        if fname not in im["log"]:
            # the failing function was never reached (served from the store?) - cannot be: its text changed
            bad("exception %s(%s) raised but %s never ran" % (r[1], r[2][:80], fname), "other-exception")
            continue
        if r[5] != fname:
            bad("the exception that reached the caller is %s(%s), not the object raised by %s" % (r[1], r[2][:100], fname), "exception-not-propagated-unchanged")
        else:
            rep.count("exception_identity_confirmed")
            # ... with what it carried when it was raised: its cause / context, as plain execution delivers them
            if len(r) > 7 and len(rf["result"]) > 7:
                rep.count("exception_chain_comparisons")
                if rf["result"][7]["cause"] or rf["result"][7]["context"]:
                    rep.count("exception_chain_comparisons_nonempty")
                if r[7] != rf["result"][7]:
                    bad("the exception reaches the caller with cause/context %r, plain execution delivers it with %r" % (r[7], rf["result"][7]), "exception-chain-altered")
        sigs = dict(im["all_paths"][-1]) if im.get("all_paths") else None
        if sigs is None:
            rep.inconclusive.append("signature map of the failed evaluation not observed")
            return rep
        forbidden = dict((sigs[p], p) for p in waiting if p in sigs)
        completed = set()
        for path, n in nodes1.items():
            if path not in waiting and n["fn"] and v1["fns"][n["fn"]]["name"] in im["log"]:
                completed.add(sigs.get(path))
        for k in im["stored"]:
            rep.count("stored_keys_checked")
            if k in forbidden:
                bad("a blob was stored under the signature of %s, which never completed" % forbidden[k], "failed-node-cached")
            elif k not in completed:
                bad("a blob was stored under a signature (%s..) that belongs to no completed node" % k[:8], "unknown-blob-stored")
        if im["sync_begun"]:
            bad("paths were committed by the failed evaluation", "failed-evaluation-committed-paths")
        if im.get("eval_ctx_clean") is False:
            bad("evaluation context still set after the failure", "context-not-reset")
        # path state unchanged
        for path, lv in (s0.get("loads") or {}).items():
            rep.count("path_state_checks")
            now = im["loads"].get(path)
            if now is None or now[:2] != lv[:2]:
                bad("path %s serves something else after the failed evaluation" % path, "failed-evaluation-changed-path")
    # repaired run
    im, rf = obs["steps"][3]["impl"], obs["steps"][3]["ref"]
    rep.count("repaired_evaluations")
    if not (im["result"][0] == "ok" and rf["result"][0] == "ok" and pickle.loads(im["result"][1]) == pickle.loads(rf["result"][1])):
        bad("repaired pipeline returned %s, reference %s" % (im["result"][1:3] if im["result"][0] != "ok" else im["result"][2][:100], rf["result"][2][:100] if rf["result"][0] == "ok" else rf["result"][1:3]), "repaired-run-wrong")
    else:
        nodes2 = gen.kept_nodes(v2)
        waiting2 = ancestors_and_self(v2, fid)
        l1 = obs["steps"][1]["impl"]["log"]
        if store not in ("noop",) and not (new_proc and store == "memory"):
            for path, n in nodes2.items():
                if path in waiting2 or not n["fn"]:
                    continue
                nm = v2["fns"][n["fn"]]["name"]
                # completed in the failed evaluation (or already before): must be reused
                rep.count("reuse_obligations")
                if nm in im["log"]:
                    fp2 = gen.node_fp(v2, n)
                    fp1 = gen.node_fp(v1, gen.kept_nodes(v1)[path]) if path in gen.kept_nodes(v1) else None
                    if fp1 == fp2 and (nm in l1 or (populate and path in gen.kept_nodes(v0) and gen.node_fp(v0, gen.kept_nodes(v0)[path]) == fp2)):
                        bad("node %s (%s) completed earlier but was executed again by the repaired evaluation" % (path, nm), "completed-subresult-not-reused")
    # other pipeline, then the repaired one again
    for si, label in ((4, "a different pipeline"), (5, "the repaired pipeline again")):
        im, rf = obs["steps"][si]["impl"], obs["steps"][si]["ref"]
        rep.count("followup_evaluations")
        if not (im["result"][0] == "ok" and rf["result"][0] == "ok" and pickle.loads(im["result"][1]) == pickle.loads(rf["result"][1])):
            bad("%s after the failure returned %s" % (label, im["result"][1:3] if im["result"][0] != "ok" else im["result"][2][:100]), "followup-wrong")
    rep.nontriv(("c10", gen.h(gen.render(p0)), fname, cls, when, store))
    return rep


def _retry_worker(arg):
    """Runs one retry scenario in a forked child: returns what every attempt observed, the execution log and the store state."""
    import os
    import dds
    from dds import _api
    from vp import vlog
    from vp.capstore import CapturingStore
    from checks import scen10

    kind, store, k, cls, n, root = arg
    dds.accept_module(scen10)
    if store == "memory":
        dds.set_store("memory")
    else:
        dds.set_store("local", internal_dir=os.path.join(root, "i"), data_dir=os.path.join(root, "d"), cache_objects=(10 if store == "local_lru" else None))
    cs = CapturingStore(_api._store_var)
    dds.set_store(cs)
    vlog.clear()
    out = {}
    try:
        if kind == "twice":
            out["result"] = ("ok", dds.eval(scen10.p_twice, k, cls, n))
        elif kind == "df_twice":
            out["result"] = ("ok", dds.eval(scen10.p_df_twice, n))
        elif kind == "fallback_inside":
            out["result"] = ("ok", dds.eval(scen10.p_fallback, k, cls))
        elif kind == "load_after_caught_failure":
            try:
                out["result"] = ("ok", ("returned", dds.eval(scen10.p_load_after_caught_failure, k, cls)))
            except BaseException as e:
                out["result"] = ("ok", ("raised", type(e).__name__))
        elif kind == "fallback_outside":
            # the caller evaluates another pipeline from the handler of the failed evaluation
            try:
                dds.eval(scen10.p_fails_only, k, cls)
                out["result"] = ("ok", "failing pipeline returned")
            except BaseException as e:
                same = e is vlog.raised.get("always_fails")
                out["result"] = ("ok", ("fallback", same, dds.eval(scen10.p_good_only, k)))
        else:
            out["result"] = ("ok", dds.eval(scen10.p_retry, k, cls, n))
    except BaseException as e:  # noqa
        out["result"] = ("exc", type(e).__name__, str(e)[:300])
    out["log"] = vlog.snapshot()
    out["stored"] = len(cs.stored_keys())
    out["loads"] = {}
    for path in ("/c10r/always", "/c10r/good", "/c10r/flaky", "/c10r/df_fails"):
        try:
            out["loads"][path] = ("ok", dds.load(path))
        except BaseException as e:  # noqa
            out["loads"][path] = ("exc", type(e).__name__)
    return out


def _leak_worker(arg):
    import os
    import dds
    from vp import vlog
    from checks import scen10

    store, cls, kept_loader, root = arg
    dds.accept_module(scen10)
    if store == "memory":
        dds.set_store("memory")
    else:
        dds.set_store("local", internal_dir=os.path.join(root, "i"), data_dir=os.path.join(root, "d"), cache_objects=(10 if store == "local_lru" else None))
    out = {}

    def run(label, thunk):
        vlog.clear()
        try:
            out[label] = ("ok", thunk(), vlog.snapshot())
        except BaseException as e:  # noqa
            out[label] = ("exc", type(e).__name__, e is vlog.raised.get("boom"), vlog.snapshot())

    run("populate", lambda: dds.eval(scen10.p_table_ok))
    run("failing", lambda: dds.eval(scen10.p_table_then_fail, cls))
    run("loader", lambda: dds.eval(scen10.p_kept_loader if kept_loader else scen10.p_loader))
    run("plain_load", lambda: dds.load("/c10l/table"))
    run("loader_again", lambda: dds.eval(scen10.p_kept_loader if kept_loader else scen10.p_loader))
    return out


def leak_job(arg):
    """populate -> an evaluation that completes a new result for the path and then fails -> another pipeline that only
    loads the path: it sees what was committed before, as if the failed evaluation had not happened."""
    store, cls, kept_loader = arg
    rep = core.Report("C10")
    rep.evaluations = 1
    case = {"leak": list(arg)}
    desc = "populate, failing evaluation (%s) after a new sub-result for the path completed, then a pipeline that only loads the path (%s, store %s)" % (cls, "kept reader" if kept_loader else "plain reader", store)
    with core.Scratch("vp_c10l_") as td:
        o = core.fork_call(_leak_worker, (store, cls, kept_loader, td), timeout=300)
    if isinstance(o, core.JobFailed):
        rep.inconclusive.append("leak worker: %r" % (o,))
        return rep
    if o["populate"][:2] != ("ok", "table-v1"):
        rep.inconclusive.append("populate step gave %r" % (o["populate"][:2],))
        return rep
    f = o["failing"]
    rep.count("failed_evaluations")
    if f[0] != "exc" or not f[2]:
        rep.violate("%s: the failing evaluation gave %r instead of the raised object" % (desc, f[:3]), case, mechanism="exception-not-propagated-unchanged")
        return rep
    if "table_v2" not in f[3]:
        rep.inconclusive.append("the sub-result did not complete before the failure")
        return rep
    rep.count("exception_identity_confirmed")
    for label in ("loader", "plain_load", "loader_again"):
        r = o[label]
        rep.count("followup_evaluations")
        want = "table-v1" if label == "plain_load" else ("loaded", "table-v1")
        if r[0] != "ok" or r[1] != want:
            rep.violate("%s: %s returned %r, expected %r (the failed evaluation committed nothing)" % (desc, label, r[1] if r[0] == "ok" else r[:2], want), case, mechanism="failed-evaluation-visible-to-later-load")
            return rep
    rep.nontriv(("c10leak",) + tuple(arg))
    return rep


def _mutate_worker(arg):
    import os
    import dds
    from vp import vlog
    from checks import scen10

    store, cls, root = arg
    dds.accept_module(scen10)
    if store == "memory_lru":
        dds.set_store("memory", cache_objects=5)
    else:
        dds.set_store("local", internal_dir=os.path.join(root, "i"), data_dir=os.path.join(root, "d"), cache_objects={"local": None, "local_lru": 5, "local_lru_all": True}[store])
    out = {}
    for label, fail in (("failing", True), ("repaired", False)):
        vlog.clear()
        try:
            out[label] = ("ok", dds.eval(scen10.p_mutating, fail, cls), vlog.snapshot())
        except BaseException as e:  # noqa
            out[label] = ("exc", type(e).__name__, e is vlog.raised.get("summarize"), vlog.snapshot())
    try:
        out["rows_path"] = ("ok", dds.load("/c10m/rows"))
    except BaseException as e:  # noqa
        out["rows_path"] = ("exc", type(e).__name__)
    return out


def mutate_job(arg):
    """The waiting function changes a completed sub-result in place and then raises; the repaired evaluation in the same
    process reuses the sub-result: it must be the value the sub-function returned, not the half-processed object."""
    store, cls = arg
    rep = core.Report("C10")
    rep.evaluations = 1
    case = {"mutate": list(arg)}
    desc = "sub-result post-processed in place by a function that then raises %s, repaired evaluation in the same process (store %s)" % (cls, store)
    with core.Scratch("vp_c10m_") as td:
        o = core.fork_call(_mutate_worker, (store, cls, td), timeout=300)
    if isinstance(o, core.JobFailed):
        rep.inconclusive.append("mutate worker: %r" % (o,))
        return rep
    f = o["failing"]
    rep.count("failed_evaluations")
    if f[0] != "exc" or not f[2]:
        rep.violate("%s: the failing evaluation gave %r instead of the raised object" % (desc, f[:3]), case, mechanism="exception-not-propagated-unchanged")
        return rep
    rep.count("exception_identity_confirmed")
    r = o["repaired"]
    rep.count("repaired_evaluations")
    if r[0] != "ok" or r[1] != [1, 2, 3, 6]:
        rep.violate("%s: the repaired evaluation returned %r, plain execution returns [1, 2, 3, 6] (it reused the object that the failed evaluation had half processed)" % (desc, r[1] if r[0] == "ok" else r[:2]),
                    case, mechanism="failed-evaluation-left-mutated-subresult")
    elif "rows_v1" in r[2] and store != "memory_lru":
        rep.violate("%s: the completed sub-result was computed again" % desc, case, mechanism="completed-subresult-not-reused")
    else:
        rep.nontriv(("c10mutate",) + tuple(arg))
    return rep


def retry_job(arg):
    kind, store, k, cls, n = arg
    rep = core.Report("C10")
    rep.evaluations = 1
    case = {"retry": list(arg)}
    desc = "%s scenario (exception %s, %d attempts/failures, store %s)" % (kind, cls, n, store)
    with core.Scratch("vp_c10r_") as td:
        o = core.fork_call(_retry_worker, (kind, store, k, cls, n, td), timeout=300)
    if isinstance(o, core.JobFailed):
        rep.inconclusive.append("retry worker: %r" % (o,))
        return rep

    def bad(what, mech):
        rep.violate("%s: %s" % (desc, what), case, mechanism=mech)

    if o["result"][0] != "ok":
        bad("the evaluation raised %s(%s) although the pipeline catches every exception of its kept calls" % o["result"][1:3], "retry-evaluation-raised")
        return rep
    res = o["result"][1]
    rep.count("retry_scenarios")
    if kind == "load_after_caught_failure":
        # nothing was ever kept at the loaded path: the reader cannot have a value (an error is the honest outcome)
        if res[0] == "returned":
            bad("a kept function loaded the path of a kept call whose failure had been caught and got %r; the evaluation returned it" % (res[1],), "load-of-failed-path-served")
        if o["loads"]["/c10r/flaky"][0] == "ok" and o["loads"]["/c10r/flaky"][1] is not None:
            bad("the reader's path serves %r although the path it loads was never produced" % (o["loads"]["/c10r/flaky"][1],), "load-of-failed-path-served")
        rep.nontriv(("c10retry",) + tuple(arg))
        return rep
    if kind in ("fallback_inside", "fallback_outside"):
        want = ("fallback", True, ("value-of-good", k)) if kind == "fallback_inside" else ("fallback", True, ("good-only", ("value-of-good", k)))
        if res != want:
            bad("an evaluation started while the failure of a kept call is being handled returned %r, plain execution gives %r" % (res, want), "fallback-in-handler-wrong")
        elif o["loads"]["/c10r/good"] != ("ok", ("value-of-good", k)):
            bad("the path kept by the fallback loads %r" % (o["loads"]["/c10r/good"],), "fallback-in-handler-wrong")
        rep.nontriv(("c10retry",) + tuple(arg))
        return rep
    if kind in ("twice", "df_twice"):
        attempts, fname, path = (res[0], "always_fails", "/c10r/always") if kind == "twice" else (res, "df_fails", "/c10r/df_fails")
        for i, a in enumerate(attempts):
            rep.count("caught_attempts")
            if a[0] != "raised-same-object":
                bad("attempt %d of the always-failing kept call %s observed %r instead of the exception raised by the function" % (i + 1, fname, a[:2] if a[0] != "returned" else ("returned", repr(a[1])[:60])), "failure-swallowed-on-retry")
                break
        if o["log"].count(fname) != len(attempts):
            bad("%s ran %d times for %d attempts" % (fname, o["log"].count(fname), len(attempts)), "failing-call-not-rerun")
        # dds commits every path found by the analysis when the evaluation as a whole succeeds, so the path of the call that
        # never completed may dangle (load raises; the memory store answers None for a missing blob): only a value is refuted
        rep.bump("dangling_path_load", o["loads"][path][0] if o["loads"][path][0] == "exc" else repr(o["loads"][path][1])[:20])
        if o["loads"][path][0] != "exc" and o["loads"][path][1] is not None:
            bad("path %s is loadable (%r) although its function never completed" % (path, repr(o["loads"][path][1])[:60]), "failed-node-cached")
        if kind == "twice":
            if res[1] != ("value-of-good", k) or o["loads"]["/c10r/good"] != ("ok", ("value-of-good", k)):
                bad("the succeeding sibling returned %r / loads %r" % (res[1], o["loads"]["/c10r/good"]), "followup-wrong")
            if o["stored"] != 1:
                bad("%d blobs stored, expected exactly the succeeding sibling's" % o["stored"], "unknown-blob-stored")
        elif o["stored"] != 0:
            bad("%d blobs stored by an evaluation in which nothing completed" % o["stored"], "unknown-blob-stored")
    else:
        nfail = n
        want = [("raised-same-object", cls if cls in ("ValueError", "KeyError", "KeyboardInterrupt") else cls)] * nfail + [("returned", ("value-of-flaky", k))] * 2
        got = [(a[0], a[1]) for a in res]
        for i, (w, g) in enumerate(zip(want, got)):
            rep.count("caught_attempts")
            if w[0] != g[0] or (w[0] == "returned" and w[1] != g[1]):
                bad("attempt %d of a kept call failing its first %d executions observed %r, expected %r" % (i + 1, nfail, (g[0], repr(g[1])[:60]), w[0]), "failure-swallowed-on-retry" if g[0] == "returned" else "retry-wrong")
                break
        if o["log"].count("flaky") != nfail + 1:
            bad("flaky ran %d times, expected %d failures + 1 success (the 2nd success served from the store)" % (o["log"].count("flaky"), nfail), "failing-call-not-rerun")
        if o["loads"]["/c10r/flaky"] != ("ok", ("value-of-flaky", k)):
            bad("path /c10r/flaky loads %r" % (o["loads"]["/c10r/flaky"],), "followup-wrong")
    rep.nontriv(("c10retry",) + tuple(arg))
    return rep


def run(tier, seed):
    rep = core.Report("C10")
    rng = core.rng_for(seed, "c10")
    rep.rule = (
        "programs (matrix skeletons, random DAG programs) x every function reachable from the entry chosen as the failing one x exception classes %r (raised with a message, without arguments, with an empty or a two-line message) x failing before / after its sub-calls x stores "
        "memory, local, local+cache; history in one process: populate (v0) -> failing v1 -> failing v1 again -> repaired v2 (optionally in a new process) -> a different pipeline -> v2 again; plus retry scenarios: one evaluation whose pipeline catches the exception of a kept call and calls it again (always failing x n attempts; failing the first n executions then succeeding), checked per attempt; and populate -> evaluation that completes a new sub-result for a committed path and then fails -> a pipeline that only loads that path. "
        "distinct_nontrivial = distinct (program, failing function, exception class, position, store) cases fully observed." % (EXC,)
    )
    programs = [progs.base_program("c10b0"), progs.base_program("c10b1", layout="one", entry_data=True)]
    nrand = 6 if tier == "quick" else 50
    while len(programs) < 2 + nrand:
        p = progs.random_program(rng, "c10r%d" % len(programs))
        if len(gen.kept_nodes(p)) >= 2:
            programs.append(p)
    other = progs.base_program("c10other", layout="two")
    jobs = []
    n = 0
    for pi, p0 in enumerate(programs):
        fids = gen.reach(p0, p0["entry"], runtime=True)  # functions that execute (a class that is only referred to runs nothing)
        for fi, fid in enumerate(fids):
            for ci, cls in enumerate(EXC):
                if tier == "quick" and (pi + fi + ci + seed) % 3 != 0 and not (pi < 2 and cls in ("ValueError", "KeyboardInterrupt") and fi % 2 == 0):
                    continue
                when = ["end", "start"][(fi + ci) % 2]
                store = ["local", "memory", "local_lru"][(n + ci) % 3]
                n += 1
                jobs.append((p0, fid, cls, when, store, n % 4 == 0, other, n % 2 == 0, ["text", "none", "chained", "empty", "multiline", "while_handling", "text"][(n + fi) % 7]))
    rjobs = []
    for store in ("local", "memory", "local_lru"):
        for ci, cls in enumerate(("ValueError", "KeyError", "CustomError", "KeyboardInterrupt", "CustomBase")):
            k = 10 * ci + rng.randrange(9)
            rjobs.append(("twice", store, k, cls, 2 + ci % 3))
            rjobs.append(("retry", store, k, cls, 1 + ci % 3))
        rjobs.append(("df_twice", store, 0, "ValueError", 3))
        rjobs.append(("fallback_inside", store, 5, "ValueError", 1))
        rjobs.append(("load_after_caught_failure", store, 7, "ValueError", 1))
        rjobs.append(("fallback_outside", store, 6, "KeyError", 1))
    ljobs = [(store, cls, kl) for store in ("local", "memory", "local_lru") for cls in ("ValueError", "KeyboardInterrupt") for kl in (False, True)]
    mjobs = [(store, cls) for store in ("local", "local_lru", "local_lru_all") for cls in ("ValueError", "KeyboardInterrupt")]
    results = core.fork_map(lambda j: {"r": retry_job, "c": case_job, "l": leak_job, "m": mutate_job}[j[0]](j[1]), [("c", j) for j in jobs] + [("r", j) for j in rjobs] + [("l", j) for j in ljobs] + [("m", j) for j in mjobs], timeout=900)
    for j, r in zip(jobs + [None] * (len(rjobs) + len(ljobs) + len(mjobs)), results):
        if isinstance(r, core.JobFailed):
            rep.inconclusive.append("case: %r" % (r,))
            continue
        rep.merge(r)
        if j is not None:
            rep.bump("exception_class", j[2])
            rep.bump("store", j[4])
    rep.sample({"failing_function": jobs[0][0]["fns"][jobs[0][1]]["name"], "exception": jobs[0][2], "when": jobs[0][3], "store": jobs[0][4]})
    if not rep.counters.get("exception_identity_confirmed"):
        rep.inconclusive.append("no propagated exception was observed")
    rep.assumptions = ["constrains kept nodes only: plain helpers re-execute whenever their caller does"]
    return rep


def replay(payload):
    rep = core.Report("C10")
    if "mutate" in payload["case"]:
        rep.merge(mutate_job(tuple(payload["case"]["mutate"])))
        return rep
    if "leak" in payload["case"]:
        rep.merge(leak_job(tuple(payload["case"]["leak"])))
        return rep
    if "retry" in payload["case"]:
        rep.merge(retry_job(tuple(payload["case"]["retry"])))
        return rep
    c = payload["case"]["case"]
    v0, v1, v2, other = c["versions"]
    fid = [f for f in v1["fns"] if v1["fns"][f].get("fail")][0]
    fl = v1["fns"][fid]["fail"]
    populate = v0["pkg"] == v1["pkg"]
    if not populate:
        v0 = gen.clone(v2)
    rep.merge(case_job((v0, fid, fl["cls"], fl["when"], c["store"], bool(c["history"][3].get("new_process")), other, populate, fl.get("msg", "text"))))
    return rep
