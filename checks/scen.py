"""
Pipelines and scenarios shared by the crash (C06) and concurrency (C07) checks.  The functions
live in the accepted package `checks`; every function returns a value that names the function,
so another function's value, None or a truncated value is recognisable.
"""
import os

import dds
from vp import vlog

BIG = "x" * 3000


def s_text():
    vlog.hit("s_text")
    return "value-of-s_text:" + BIG + ":end"


def s_text_v2():
    vlog.hit("s_text_v2")
    return "value-of-s_text_v2:" + BIG + ":end"


def s_obj():
    vlog.hit("s_obj")
    return {"value-of": "s_obj", "payload": list(range(30000)), "end": True}


def s_bytes():
    vlog.hit("s_bytes")
    return b"value-of-s_bytes:" + bytes(range(256)) * 8 + b":end"


def s_frame():
    vlog.hit("s_frame")
    import pandas as pd

    return pd.DataFrame({"value-of": ["s_frame"] * 50, "n": list(range(50))})


def s_big_frame():
    vlog.hit("s_big_frame")
    import pandas as pd

    return pd.DataFrame({"n": range(1100000)})


def s_reader():
    vlog.hit("s_reader")
    return ("reader", dds.load("/c7/p"))


def s_dict():
    vlog.hit("s_dict")
    return {"value-of": "s_dict", "rows": [[i, "r%d" % i] for i in range(2000)], "end": True}


def s_dict_earlier():
    vlog.hit("s_dict_earlier")
    return {"value-of": "s_dict_earlier", "n": 1}


def s_none():
    vlog.hit("s_none")
    return None


def n_leaf_a():
    vlog.hit("n_leaf_a")
    return "value-of-n_leaf_a:" + BIG[:500]


def n_leaf_b(k):
    vlog.hit("n_leaf_b")
    return ("value-of-n_leaf_b", k, BIG[:300])


def n_mid():
    vlog.hit("n_mid")
    a = dds.keep("/shared/dir/leaf_a", n_leaf_a)
    b = dds.keep("/shared/dir/leaf_b", n_leaf_b, 7)
    return ("value-of-n_mid", a, b)


def n_top():
    vlog.hit("n_top")
    m = dds.keep("/shared/dir/mid", n_mid)
    return ("value-of-n_top", m)


EXPECTED = {
    "s_text": "value-of-s_text:" + BIG + ":end",
    "s_text_v2": "value-of-s_text_v2:" + BIG + ":end",
    "s_obj": {"value-of": "s_obj", "payload": list(range(30000)), "end": True},
    "s_bytes": b"value-of-s_bytes:" + bytes(range(256)) * 8 + b":end",
    "s_none": None,
    "n_leaf_a": "value-of-n_leaf_a:" + BIG[:500],
    "n_leaf_b": ("value-of-n_leaf_b", 7, BIG[:300]),
}
EXPECTED["s_dict"] = {"value-of": "s_dict", "rows": [[i, "r%d" % i] for i in range(2000)], "end": True}
EXPECTED["s_dict_earlier"] = {"value-of": "s_dict_earlier", "n": 1}
EXPECTED["s_frame"] = s_frame.__wrapped__() if hasattr(s_frame, "__wrapped__") else None
EXPECTED["n_mid"] = ("value-of-n_mid", EXPECTED["n_leaf_a"], EXPECTED["n_leaf_b"])
EXPECTED["n_top"] = ("value-of-n_top", EXPECTED["n_mid"])


def companion(root):
    """A directory that belongs to the scenario root `root` but lives on another file system (None if there is none)."""
    from vp import core

    o = core.other_filesystem_dir(os.path.dirname(os.path.abspath(root)))
    return None if o is None else os.path.join(o, os.path.basename(os.path.abspath(root)))


def dirs(root, data="data"):
    if data == "@otherfs":
        # the data directory on another file system than the internal directory (a rename between the two is impossible)
        c = companion(root)
        return os.path.join(root, "internal"), (os.path.join(c, "data") if c else os.path.join(root, "data_otherfs"))
    return os.path.join(root, "internal"), os.path.join(root, data)


def set_local(root, data="data", cache=None):
    i, d = dirs(root, data)
    dds.set_store("local", internal_dir=i, data_dir=d, cache_objects=cache)


# --- actions: (name, callable(root) -> value); each is what one process does


def act_keep(path, fn_name, data="data", cache=None):
    def run(root):
        set_local(root, data, cache)
        return dds.keep(path, globals()[fn_name])

    run.__name__ = "keep(%s,%s%s%s)" % (path, fn_name, "" if data == "data" else "," + data, "" if cache is None else ",cache_objects=%r" % cache)
    return run


def act_keep_user_codec(path, fn_name, earlier=None):
    """A process that registers a user file codec for dict results and then keeps. earlier: a long-lived session that
    had already kept this other function (a dict result as well) before the codec was registered."""
    def run(root):
        from dds.codec import codec_registry
        from vp import storemodel

        set_local(root)
        if earlier:
            dds.keep("/c7/earlier", globals()[earlier])
        codec_registry().add_file_codec(storemodel.json_dict_file_codec())
        return dds.keep(path, globals()[fn_name])

    run.__name__ = "keep-with-user-dict-codec(%s,%s%s)" % (path, fn_name, ",after-earlier-keep" if earlier else "")
    return run


def act_load_user_codec(path):
    def run(root):
        from dds.codec import codec_registry
        from vp import storemodel

        set_local(root)
        codec_registry().add_file_codec(storemodel.json_dict_file_codec())
        return dds.load(path)

    run.__name__ = "load-with-user-dict-codec(%s)" % path
    return run


def act_keep_twice(path, fn_name, cache=None):
    """One process, one long-lived store object: the same keep twice; between the two an operation on the marker
    file MARK_second_keep makes the boundary visible in the recorded operation order."""
    def run(root):
        set_local(root, "data", cache)
        a = dds.keep(path, globals()[fn_name])
        os.path.exists(os.path.join(root, "MARK_second_keep"))
        b = dds.keep(path, globals()[fn_name])
        return (a, b)

    run.__name__ = "keep-twice(%s,%s%s)" % (path, fn_name, "" if cache is None else ",cache_objects=%r" % cache)
    return run


def act_load_twice(path, cache=None):
    """One long-lived store object loads the same path twice (marker operation in between)."""
    def run(root):
        set_local(root, "data", cache)
        a = dds.load(path)
        os.path.exists(os.path.join(root, "MARK_second_load"))
        b = dds.load(path)
        return (a, b)

    run.__name__ = "load-twice(%s%s)" % (path, "" if cache is None else ",cache_objects=%r" % cache)
    return run


def frame_value():
    import pandas as pd

    return pd.DataFrame({"value-of": ["s_frame"] * 50, "n": list(range(50))})


def big_frame_value():
    import pandas as pd

    return pd.DataFrame({"n": range(1100000)})


def act_eval_top(data="data"):
    def run(root):
        set_local(root, data)
        return dds.eval(n_top)

    run.__name__ = "eval(n_top)"
    return run


def act_load(path, data="data"):
    def run(root):
        set_local(root, data)
        return dds.load(path)

    run.__name__ = "load(%s)" % path
    return run


def act_create_store(data="data"):
    def run(root):
        set_local(root, data)
        return "store-created"

    run.__name__ = "create-store"
    return run


def act_with_fault(action, k):
    """The action with one transient I/O failure (OSError EMFILE) injected before its k-th file-system operation."""
    def run(root):
        from vp import fsshim

        fsshim.set_fault(k)
        return action(root)

    run.__name__ = "%s+transient-failure-before-op-%d" % (action.__name__, k)
    return run


def act_old_format_metadata(data="data"):
    """Rewrites the metadata of every blob in the format of early releases ({"protocol": ...} only, no timestamp)."""
    def run(root):
        import json

        i, _ = dirs(root, data)
        n = 0
        for fn in sorted(os.listdir(os.path.join(i, "blobs"))):
            if fn.endswith(".meta"):
                mp = os.path.join(i, "blobs", fn)
                with open(mp) as f:
                    meta = json.load(f)
                with open(mp, "w") as f:
                    json.dump({"protocol": meta["protocol"]}, f)
                n += 1
        return "old-format-metadata:%d" % n

    run.__name__ = "old-format-metadata"
    return run


def act_with_pid(action, pid):
    """The same action in a process that reports the process id `pid` (containers and fresh pid namespaces hand out the same
    small ids run after run: a killed process and the one that comes after it may well share one)."""
    def run(root):
        os.getpid = lambda: pid
        return action(root)

    run.__name__ = action.__name__ + "@pid%d" % pid
    return run


def act_age_metadata(days=3, data="data"):
    """Makes every blob look `days` days old (the timestamp recorded in its metadata is moved back)."""
    def run(root):
        import json

        i, _ = dirs(root, data)
        n = 0
        for fn in sorted(os.listdir(os.path.join(i, "blobs"))):
            if fn.endswith(".meta"):
                mp = os.path.join(i, "blobs", fn)
                with open(mp) as f:
                    meta = json.load(f)
                if isinstance(meta.get("timestamp_millis"), int):
                    meta["timestamp_millis"] -= days * 24 * 3600 * 1000
                    with open(mp, "w") as f:
                        json.dump(meta, f)
                    n += 1
        return "aged-metadata:%d" % n

    run.__name__ = "age-metadata-%dd" % days
    return run


def act_empty_internal(data="data"):
    """Empties the blob directory (a cache clean-up, an internal directory replaced by a new one): the links of the data
    directory stay behind and dangle."""
    def run(root):
        i, _ = dirs(root, data)
        n = 0
        for fn in sorted(os.listdir(os.path.join(i, "blobs"))):
            os.remove(os.path.join(i, "blobs", fn))
            n += 1
        return "emptied-internal:%d" % n

    run.__name__ = "empty-internal-directory"
    return run


def act_default_store_keep(path, fn_name):
    def run(root):
        # the lazily created default store lives under tempfile.gettempdir(): redirect it into the scenario root
        import tempfile

        tempfile.tempdir = os.path.join(root, "tmpdir")
        os.makedirs(tempfile.tempdir, exist_ok=True)
        from dds import _api

        _api._store_var = None
        return dds.keep(path, globals()[fn_name])

    run.__name__ = "default-store-keep(%s,%s)" % (path, fn_name)
    return run


def act_default_store_load(path):
    def run(root):
        import tempfile

        tempfile.tempdir = os.path.join(root, "tmpdir")
        os.makedirs(tempfile.tempdir, exist_ok=True)
        from dds import _api

        _api._store_var = None
        return dds.load(path)

    run.__name__ = "default-store-load(%s)" % path
    return run


# --- kept functions that return tables (C04 frame job)


def frame_of(tag):
    from vp import storemodel as SM

    vlog.hit("frame_of:" + tag)
    return SM.result_value(tag)
