"""
C02 - nothing is recomputed unless something it depends on changed.

Monitor: the per-function execution log written by the generated code and the path -> signature
map handed to Store.sync_paths, per history step.  Oracle: a kept node whose dependency-cone
fingerprint (DESIGN.md 4.1, computed from the generator's ground truth) was already evaluated
against the same store neither executes nor changes signature.
"""
from vp import core, progs, e1run


def build_cases(tier, seed):
    rng = core.rng_for(seed, "c02")
    stores = ("local", "local_lru", "memory")
    cases = progs.zero_edit_cases(tier, seed, stores=stores)
    m = progs.matrix_cases("thorough", seed, stores=("local",) if tier == "quick" else stores)
    cases += m
    n_rand = 300 if tier == "quick" else 3000
    for i in range(n_rand):
        cases.append(progs.random_case(rng, i, rng.choice(["local", "local", "local_lru", "memory"])))
    # code in a __main__ script / in IPython cells, incl. unchanged redefinition in later cells
    cases += progs.location_cases(tier, seed)
    return cases


def run(tier, seed):
    rep = core.Report("C02")
    rep.rule = (
        "zero-edit histories (re-evaluation, fresh process, unrelated definitions added before/between/after in every module, reordering, edits of non-accepted code, relocation to another accepted "
        "package, switching between f() and dds.eval(f)) over 5 module layouts/import forms x plain and data-function entries; every single edit of the dependency matrix (see C01) with revert and restart; "
        "random programs with random histories. For every kept node at every step: cone fingerprint seen before => body absent from the execution log and signature unchanged. "
        "distinct_nontrivial = distinct cases in which at least one node was served from the store."
    )
    cases = build_cases(tier, seed)
    e1run.run_cases(cases, "C02", ["memo"], rep)
    rep.sample({"case": cases[0]["name"], "history": cases[0]["history"][:8], "edits": [v.get("kind") for v in cases[0]["edit_desc"].values()][:12]})
    rep.assumptions = ["dependency cone as defined in DESIGN.md 4.1; memory store obligations only within one process; noop store excluded"]
    if rep.counters.get("memo_must_be_served", 0) == 0:
        rep.inconclusive.append("no served-from-store obligation was observed")
    return rep


def replay(payload):
    from vp import e1

    rep = core.Report("C02")
    case = payload["case"]["case"]
    obs = e1.run_case(case)
    if obs["failed"]:
        rep.inconclusive.append(obs["failed"])
        return rep
    e1.oracle_memo(case, obs, rep)
    return rep
