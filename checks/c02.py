"""
C02 - nothing is recomputed unless something it depends on changed.

Monitor: the per-function execution log written by the generated code and the path -> signature
map handed to Store.sync_paths, per history step.  Oracle: a kept node whose dependency-cone
fingerprint (DESIGN.md 4.1, computed from the generator's ground truth) was already evaluated
against the same store neither executes nor changes signature.
"""
from vp import core, progs, e1run


def build_cases(tier, seed):
    rng = core.rng_for(seed, "c02")
    stores = ("local", "local_lru", "memory")
    cases = progs.zero_edit_cases(tier, seed, stores=stores)
    m = progs.matrix_cases("thorough", seed, stores=("local",) if tier == "quick" else stores)
    cases += m
    n_rand = 300 if tier == "quick" else 3000
    for i in range(n_rand):
        cases.append(progs.random_case(rng, i, rng.choice(["local", "local", "local_lru", "memory"])))
    # code in a __main__ script / in IPython cells, incl. unchanged redefinition in later cells
    cases += progs.location_cases(tier, seed)
    return cases


def hashseed_job(arg):
    """The same program evaluated by brand-new interpreters with different PYTHONHASHSEED values against one store:
    after the first run no kept function executes and the signatures stay the same."""
    import json
    import os
    import pickle
    import subprocess
    import sys

    from vp import gen

    idx, p, seeds = arg
    rep = core.Report("C02")
    rep.evaluations = 1
    f = p["fns"][p["entry"]]
    case = {"hashseed": True, "program": p, "seeds": seeds, "idx": idx}
    kept_names = set(p["fns"][n["fn"]]["name"] for n in gen.kept_nodes(p).values() if n["fn"])
    outs = []
    with core.Scratch("vp_c02h_") as td:
        root, sdir = os.path.join(td, "code"), os.path.join(td, "store")
        os.makedirs(root)
        seg = {"mode": "impl", "root": root, "accept": [p["pkg"]] + gen.lazy_modules(p), "store": {"kind": "local", "dir": sdir},
               "steps": [{"write": gen.render(p), "how": "import", "modules": gen.import_order(p), "entry": {"style": "eval", "module": gen.modname(p, f["module"]), "func": f["name"], "args_src": "()"}}]}
        with open(os.path.join(td, "seg.json"), "w") as fh:
            json.dump(seg, fh)
        for hs in seeds:
            env = dict(os.environ, PYTHONHASHSEED=hs, PYTHONPATH=core.repo_dir() + os.pathsep + core.VERIF_DIR)
            op = os.path.join(td, "out_%d.pkl" % len(outs))
            try:
                r = subprocess.run([sys.executable, "-m", "vp.segcli", os.path.join(td, "seg.json"), op], env=env, cwd=core.VERIF_DIR, timeout=300, capture_output=True, text=True)
            except subprocess.TimeoutExpired:
                rep.inconclusive.append("hash-seed run timed out")
                return rep
            if r.returncode != 0 or not os.path.exists(op):
                rep.inconclusive.append("hash-seed run failed: %s" % r.stderr[-300:])
                return rep
            with open(op, "rb") as fh:
                outs.append(pickle.load(fh)["steps"][0])
    for o in outs:
        if "setup_error" in o or o.get("result", ("exc",))[0] != "ok":
            rep.inconclusive.append("hash-seed run did not evaluate: %r" % (o.get("setup_error") or o.get("result"),))
            return rep
    first = outs[0]
    for hs, o in list(zip(seeds, outs))[1:]:
        rep.count("memo_must_be_served", len(kept_names))
        rep.count("restarts_with_other_hash_seed")
        ran = [x for x in o["log"] if x in kept_names]
        if ran:
            rep.violate("program %s: a new interpreter with PYTHONHASHSEED=%s re-executed kept functions %r although nothing changed (first run with PYTHONHASHSEED=%s)" % (p["pkg"], hs, sorted(set(ran))[:5], seeds[0]),
                        case, mechanism="recomputed-under-other-hash-seed")
        elif o["syncs"] != first["syncs"]:
            rep.violate("program %s: signatures differ under PYTHONHASHSEED=%s" % (p["pkg"], hs), case, mechanism="recomputed-under-other-hash-seed")
        elif pickle.loads(o["result"][1]) != pickle.loads(first["result"][1]):
            rep.violate("program %s: value differs under PYTHONHASHSEED=%s" % (p["pkg"], hs), case, mechanism="recomputed-under-other-hash-seed")
    rep.nontriv(("c02hash", gen.h(gen.render(p))))
    return rep


def run(tier, seed):
    rep = core.Report("C02")
    rep.rule = (
        "zero-edit histories (re-evaluation, fresh process, unrelated definitions added before/between/after in every module, reordering, edits of non-accepted code, relocation to another accepted "
        "package, switching between f() and dds.eval(f)) over 5 module layouts/import forms x plain and data-function entries; every single edit of the dependency matrix (see C01) with revert and restart; "
        "random programs with random histories; restarts in brand-new interpreters with other PYTHONHASHSEED values (programs with module-level sets of strings). For every kept node at every step: cone fingerprint seen before => body absent from the execution log and signature unchanged. "
        "distinct_nontrivial = distinct cases in which at least one node was served from the store."
    )
    cases = build_cases(tier, seed)
    e1run.run_cases(cases, "C02", ["memo"], rep)
    # restarts under other hash seeds (real interpreters): programs with a module-level set of strings, dict variables ...
    rng = core.rng_for(seed, "c02h")
    hp = [progs.base_program("c2h0", setvar=True), progs.base_program("c2h1", layout="one", setvar=True, entry_data=True)]
    while len(hp) < (8 if tier == "quick" else 40):
        q = progs.random_program(rng, "c2h%d" % len(hp))
        if q.get("setvar") or len(hp) % 2:
            hp.append(q)
    hjobs = [(i, q, ["1", "2", "random", "0"]) for i, q in enumerate(hp)]
    for j, r in zip(hjobs, core.fork_map(hashseed_job, hjobs, timeout=1200)):
        if isinstance(r, core.JobFailed):
            rep.inconclusive.append("hash-seed job: %r" % (r,))
        else:
            rep.merge(r)
    rep.sample({"case": cases[0]["name"], "history": cases[0]["history"][:8], "edits": [v.get("kind") for v in cases[0]["edit_desc"].values()][:12]})
    rep.assumptions = ["dependency cone as defined in DESIGN.md 4.1; memory store obligations only within one process; noop store excluded"]
    if rep.counters.get("memo_must_be_served", 0) == 0:
        rep.inconclusive.append("no served-from-store obligation was observed")
    return rep


def replay(payload):
    from vp import e1

    rep = core.Report("C02")
    if payload["case"].get("hashseed"):
        c = payload["case"]
        rep.merge(hashseed_job((c["idx"], c["program"], c["seeds"])))
        return rep
    case = payload["case"]["case"]
    obs = e1.run_case(case)
    if obs["failed"]:
        rep.inconclusive.append(obs["failed"])
        return rep
    e1.oracle_memo(case, obs, rep)
    return rep
