"""
C02 - nothing is recomputed unless something it depends on changed.

Monitor: the per-function execution log written by the generated code and the path -> signature
map handed to Store.sync_paths, per history step.  Oracle: a kept node whose dependency-cone
fingerprint (DESIGN.md 4.1, computed from the generator's ground truth) was already evaluated
against the same store neither executes nor changes signature.
"""
from vp import core, progs, e1run


def build_cases(tier, seed):
    rng = core.rng_for(seed, "c02")
    stores = ("local", "local_lru", "memory")
    cases = progs.zero_edit_cases(tier, seed, stores=stores)
    m = progs.matrix_cases("thorough", seed, stores=("local",) if tier == "quick" else stores)
    cases += m
    n_rand = 300 if tier == "quick" else 3000
    for i in range(n_rand):
        cases.append(progs.random_case(rng, i, rng.choice(["local", "local", "local_lru", "memory"])))
    # code in a __main__ script / in IPython cells, incl. unchanged redefinition in later cells
    cases += progs.location_cases(tier, seed)
    return cases


def hashseed_job(arg):
    """The same program evaluated by brand-new interpreters with different PYTHONHASHSEED values against one store:
    after the first run no kept function executes and the signatures stay the same."""
    import json
    import os
    import pickle
    import subprocess
    import sys

    from vp import gen

    idx, p, seeds = arg
    rep = core.Report("C02")
    rep.evaluations = 1
    f = p["fns"][p["entry"]]
    case = {"hashseed": True, "program": p, "seeds": seeds, "idx": idx}
    kept_names = set(p["fns"][n["fn"]]["name"] for n in gen.kept_nodes(p).values() if n["fn"])
    outs = []
    with core.Scratch("vp_c02h_") as td:
        root, sdir = os.path.join(td, "code"), os.path.join(td, "store")
        os.makedirs(root)
        seg = {"mode": "impl", "root": root, "accept": [p["pkg"]] + gen.lazy_modules(p), "store": {"kind": "local", "dir": sdir},
               "steps": [{"write": gen.render(p), "how": "import", "modules": gen.import_order(p), "entry": {"style": "eval", "module": gen.modname(p, f["module"]), "func": f["name"], "args_src": "()"}}]}
        with open(os.path.join(td, "seg.json"), "w") as fh:
            json.dump(seg, fh)
        for hs in seeds:
            env = dict(os.environ, PYTHONHASHSEED=hs, PYTHONPATH=core.repo_dir() + os.pathsep + core.VERIF_DIR)
            op = os.path.join(td, "out_%d.pkl" % len(outs))
            try:
                r = subprocess.run([sys.executable, "-m", "vp.segcli", os.path.join(td, "seg.json"), op], env=env, cwd=core.VERIF_DIR, timeout=300, capture_output=True, text=True)
            except subprocess.TimeoutExpired:
                rep.inconclusive.append("hash-seed run timed out")
                return rep
            if r.returncode != 0 or not os.path.exists(op):
                rep.inconclusive.append("hash-seed run failed: %s" % r.stderr[-300:])
                return rep
            with open(op, "rb") as fh:
                outs.append(pickle.load(fh)["steps"][0])
    for o in outs:
        if "setup_error" in o or o.get("result", ("exc",))[0] != "ok":
            rep.inconclusive.append("hash-seed run did not evaluate: %r" % (o.get("setup_error") or o.get("result"),))
            return rep
    first = outs[0]
    for hs, o in list(zip(seeds, outs))[1:]:
        rep.count("memo_must_be_served", len(kept_names))
        rep.count("restarts_with_other_hash_seed")
        ran = [x for x in o["log"] if x in kept_names]
        if ran:
            rep.violate("program %s: a new interpreter with PYTHONHASHSEED=%s re-executed kept functions %r although nothing changed (first run with PYTHONHASHSEED=%s)" % (p["pkg"], hs, sorted(set(ran))[:5], seeds[0]),
                        case, mechanism="recomputed-under-other-hash-seed")
        elif o["syncs"] != first["syncs"]:
            rep.violate("program %s: signatures differ under PYTHONHASHSEED=%s" % (p["pkg"], hs), case, mechanism="recomputed-under-other-hash-seed")
        elif pickle.loads(o["result"][1]) != pickle.loads(first["result"][1]):
            rep.violate("program %s: value differs under PYTHONHASHSEED=%s" % (p["pkg"], hs), case, mechanism="recomputed-under-other-hash-seed")
    rep.nontriv(("c02hash", gen.h(gen.render(p))))
    return rep


def other_process_job(arg):
    """A long-lived process only analyses the pipeline (dry run); another process evaluates and stores everything; then the
    first process evaluates: every kept node is in the store, nothing executes."""
    import os

    from vp import gen
    from vp.worker import run_segment

    p0, store, idx = arg
    rep = core.Report("C02")
    rep.evaluations = 1
    f = p0["fns"][p0["entry"]]
    ent = {"style": "eval", "module": gen.modname(p0, f["module"]), "func": f["name"], "args_src": "()"}
    kept_names = set(p0["fns"][n["fn"]]["name"] for n in gen.kept_nodes(p0).values() if n["fn"])
    case = {"other_process": True, "program": p0, "store": store, "idx": idx}
    with core.Scratch("vp_c02o_") as td:
        ra, rb, sdir = os.path.join(td, "a"), os.path.join(td, "b"), os.path.join(td, "store")
        for d in (ra, rb, sdir):
            os.makedirs(d)
        side = {"mode": "impl", "root": rb, "accept": [p0["pkg"]] + gen.lazy_modules(p0), "store": {"kind": store, "dir": sdir},
                "steps": [{"write": gen.render(p0), "how": "import", "modules": gen.import_order(p0), "entry": ent}]}
        seg = {"mode": "impl", "root": ra, "accept": [p0["pkg"]] + gen.lazy_modules(p0), "store": {"kind": store, "dir": sdir},
               "steps": [{"write": gen.render(p0), "how": "import", "modules": gen.import_order(p0), "entry": dict(ent, options={"dds_stages": ["analysis"]})},
                         {"how": "none", "side": side, "entry": ent}, {"how": "none", "entry": ent}]}
        a = core.fork_call(run_segment, seg, timeout=900)
    if isinstance(a, core.JobFailed):
        rep.inconclusive.append("other-process worker failed: %r" % (a,))
        return rep
    for x in a["steps"]:
        if "setup_error" in x:
            rep.inconclusive.append("setup error: %s" % x["setup_error"][-300:])
            return rep
    s1 = a["steps"][1]
    if "side_error" in s1 or "side" not in s1 or s1["side"]["steps"][0].get("result", ("exc",))[0] != "ok":
        rep.inconclusive.append("side process failed: %s" % (s1.get("side_error") or s1.get("side", {}).get("steps", [{}])[0].get("result"),))
        return rep
    if a["steps"][0]["log"]:
        rep.inconclusive.append("the dry run executed user code")
        return rep
    for si in (1, 2):
        st = a["steps"][si]
        if st["result"][0] != "ok":
            rep.inconclusive.append("evaluation %d failed: %r" % (si, st["result"][1:3]))
            return rep
        rep.count("memo_must_be_served", len(kept_names))
        ran = sorted(set(x for x in st["log"] if x in kept_names))
        if ran:
            rep.violate("store %s: another process had evaluated and stored the whole pipeline, yet the long-lived process (which had only analysed it before) executed %r again in its evaluation %d" % (store, ran[:5], si),
                        case, mechanism="recomputed-although-stored-by-other-process")
            return rep
    rep.nontriv(("c02other", gen.h(gen.render(p0)), store))
    return rep


LAMBDA_SRC = """import dds
from vp import vlog
%(above)s

def lam_helper():
    vlog.hit("lam_helper")
    return %(const)d


def entry():
    # %(comment)s
    return dds.keep("/c02lam/x", lambda: (vlog.hit("lam_body"), lam_helper())[1])
%(below)s"""


def lambda_job(arg):
    """A lambda kept from a function that is called directly (not inside an evaluation): text added above or below it,
    in the same module, does not re-execute it; an edit of its helper does."""
    import os

    from vp.worker import run_segment

    idx, how, store = arg
    rep = core.Report("C02")
    rep.evaluations = 1
    pkg = "c02lam%d" % idx
    unrelated = "\n\ndef unrelated_%d():\n    return %d\n\n\nUNRELATED_%d = [1, 2]\n"
    versions = [
        ("initial", dict(above="", below="", const=5, comment="c"), None),
        ("re-evaluation", dict(above="", below="", const=5, comment="c"), False),
        ("unrelated definitions added above (the lambda moves down)", dict(above=unrelated % (1, 1, 1) + unrelated % (2, 2, 2), below="", const=5, comment="c"), False),
        ("unrelated definitions added below", dict(above=unrelated % (1, 1, 1) + unrelated % (2, 2, 2), below=unrelated % (3, 3, 3), const=5, comment="c"), False),
        ("definitions above removed again (the lambda moves up)", dict(above="", below=unrelated % (3, 3, 3), const=5, comment="c"), False),
        ("helper edited", dict(above="", below=unrelated % (3, 3, 3), const=6, comment="c"), True),
        ("helper reverted", dict(above="# a comment line\n# another one\n", below="", const=5, comment="c"), False),
    ]
    steps = []
    for i, (label, kw, _) in enumerate(versions):
        steps.append({"write": {pkg + "/__init__.py": "", pkg + "/m.py": LAMBDA_SRC % kw}, "how": "import" if i == 0 else "reload", "modules": [pkg + ".m"],
                      "entry": {"style": "call", "module": pkg + ".m", "func": "entry", "args_src": "()"}})
    case = {"lambda": True, "idx": idx, "how": how, "store": store}
    with core.Scratch("vp_c02l_") as td:
        root = os.path.join(td, "code")
        os.makedirs(root)
        outs = []
        segs = [steps] if how == "same-process" else [[dict(st, how="import")] for st in steps]
        for sg in segs:
            o = core.fork_call(run_segment, {"mode": "impl", "root": root, "accept": [pkg], "steps": sg, "store": {"kind": store, "dir": os.path.join(td, "store")}}, timeout=300)
            if isinstance(o, core.JobFailed):
                rep.inconclusive.append("lambda worker: %r" % (o,))
                return rep
            outs += o["steps"]
    import pickle

    for (label, kw, must_run), o in zip(versions, outs):
        if "setup_error" in o or o.get("result", ("exc",))[0] != "ok":
            rep.inconclusive.append("lambda job step %r failed: %r" % (label, o.get("setup_error") or o.get("result")))
            return rep
        if pickle.loads(o["result"][1]) != kw["const"]:
            rep.violate("kept lambda, %s (%s, %s): returned %s, plain execution gives %d" % (label, how, store, o["result"][2][:60], kw["const"]), case, mechanism="lambda-wrong-value")
            return rep
        ran = "lam_body" in o["log"]
        if must_run is None:
            continue
        rep.count("memo_must_be_served" if not must_run else "memo_may_execute")
        if ran and not must_run:
            rep.violate("kept lambda, %s (%s, %s): its body was executed again although nothing it depends on changed" % (label, how, store), case, mechanism="lambda-recomputed")
            return rep
    rep.nontriv(("c02lambda", how, store))
    return rep


def run(tier, seed):
    rep = core.Report("C02")
    rep.rule = (
        "zero-edit histories (re-evaluation, fresh process, unrelated definitions added before/between/after in every module, reordering, edits of non-accepted code, relocation to another accepted "
        "package, switching between f() and dds.eval(f)) over 5 module layouts/import forms x plain and data-function entries; every single edit of the dependency matrix (see C01) with revert and restart; "
        "random programs with random histories; restarts in brand-new interpreters with other PYTHONHASHSEED values (programs with module-level sets of strings); a process that only analysed the pipeline before another process stored all results; a lambda kept from a directly called function while text is added / removed above and below it. For every kept node at every step: cone fingerprint seen before => body absent from the execution log and signature unchanged. "
        "distinct_nontrivial = distinct cases in which at least one node was served from the store."
    )
    cases = build_cases(tier, seed)
    e1run.run_cases(cases, "C02", ["memo"], rep)
    # restarts under other hash seeds (real interpreters): programs with a module-level set of strings, dict variables ...
    rng = core.rng_for(seed, "c02h")
    hp = [progs.base_program("c2h0", setvar=True), progs.base_program("c2h1", layout="one", setvar=True, entry_data=True)]
    while len(hp) < (8 if tier == "quick" else 40):
        q = progs.random_program(rng, "c2h%d" % len(hp))
        if q.get("setvar") or len(hp) % 2:
            hp.append(q)
    hjobs = [(i, q, ["1", "2", "random", "0"]) for i, q in enumerate(hp)]
    for j, r in zip(hjobs, core.fork_map(hashseed_job, hjobs, timeout=1200)):
        if isinstance(r, core.JobFailed):
            rep.inconclusive.append("hash-seed job: %r" % (r,))
        else:
            rep.merge(r)
    ojobs = [(q, st, i) for i, q in enumerate(hp[:3]) for st in ("local", "local_lru", "local_api_cache_true", "local_api_cache_all")]
    for j, r in zip(ojobs, core.fork_map(other_process_job, ojobs, timeout=1200)):
        if isinstance(r, core.JobFailed):
            rep.inconclusive.append("other-process job: %r" % (r,))
        else:
            rep.merge(r)
    ljobs = [(i, how, store) for i, (how, store) in enumerate([("same-process", "local"), ("new-process-per-step", "local"), ("same-process", "memory"), ("new-process-per-step", "local_lru")])]
    for j, r in zip(ljobs, core.fork_map(lambda_job, ljobs, timeout=900)):
        if isinstance(r, core.JobFailed):
            rep.inconclusive.append("lambda job: %r" % (r,))
        else:
            rep.merge(r)
    rep.sample({"case": cases[0]["name"], "history": cases[0]["history"][:8], "edits": [v.get("kind") for v in cases[0]["edit_desc"].values()][:12]})
    rep.assumptions = ["dependency cone as defined in DESIGN.md 4.1; memory store obligations only within one process; noop store excluded"]
    if rep.counters.get("memo_must_be_served", 0) == 0:
        rep.inconclusive.append("no served-from-store obligation was observed")
    return rep


def replay(payload):
    from vp import e1

    rep = core.Report("C02")
    if payload["case"].get("other_process"):
        c = payload["case"]
        rep.merge(other_process_job((c["program"], c["store"], c["idx"])))
        return rep
    if payload["case"].get("lambda"):
        c = payload["case"]
        rep.merge(lambda_job((c["idx"], c["how"], c["store"])))
        return rep
    if payload["case"].get("hashseed"):
        c = payload["case"]
        rep.merge(hashseed_job((c["idx"], c["program"], c["seeds"])))
        return rep
    case = payload["case"]["case"]
    obs = e1.run_case(case)
    if obs["failed"]:
        rep.inconclusive.append(obs["failed"])
        return rep
    e1.oracle_memo(case, obs, rep)
    return rep
