"""
C18 - graph export is faithful and does not perturb the evaluation.

Monitor: the graph file that dds writes for dds_export_graph=<file>.plain (rendered by graphviz,
parsed back), and the result + Store.sync_paths signature map of the same evaluation with and
without the export.  Ground truth for nodes and edges comes from the generator.
"""
import os
import pickle
import shutil

from vp import core, gen, progs
from vp.graphparse import parse_plain
from vp.worker import run_segment


def truth(p):
    """(nodes, solid edges, dashed edges (own body), dashed edges allowed (through helpers), runtime-arg nodes, sibling order)."""
    nodes = gen.kept_nodes(p)
    solid, dashed, dashed_ok = set(), set(), set()
    loaded_external = set()
    optional_nodes = set()

    def first_level(fid, seen, via_helper, acc_keeps, acc_loads):
        """kept nodes / loads reachable from function fid without crossing a kept function."""
        f = p["fns"][fid]
        for s in f["stmts"]:
            for a in s.get("args", []):
                if a["k"] == "callarg" and a["fn"] not in seen:
                    first_level(a["fn"], seen | {a["fn"]}, True, acc_keeps, acc_loads)
            if s["k"] == "keep":
                acc_keeps.add(s["path"])
            elif s["k"] == "lambda_keep":
                acc_keeps.add(s["path"])
            elif s["k"] == "load":
                acc_loads.add((s["path"], via_helper))
            elif s["k"] in ("call", "ref") or (s["k"] == "nested_def" and s.get("fn")):
                g = p["fns"][s["fn"]]
                if g["data_path"] is not None:
                    acc_keeps.add(g["data_path"])
                elif s["fn"] not in seen:
                    first_level(s["fn"], seen | {s["fn"]}, True, acc_keeps, acc_loads)
            elif s["k"] in ("method", "clsattr", "clsref"):
                # (a class that is merely referred to by name is analysed like a call of the class: static reach)
                c = p["classes"][s["cls"]]
                if c.get("calls"):
                    g = p["fns"][c["calls"]]
                    if g["data_path"] is not None:
                        acc_keeps.add(g["data_path"])
                    else:
                        first_level(c["calls"], seen | {c["calls"]}, True, acc_keeps, acc_loads)

    for path, n in nodes.items():
        if n["fn"] is None:
            continue
        ks, ls = set(), set()
        first_level(n["fn"], {n["fn"]}, False, ks, ls)
        for u in ks:
            solid.add((u, path))
        for (lp, via) in ls:
            (dashed_ok if via else dashed).add((lp, path))
            if lp not in nodes and not via:
                loaded_external.add(lp)
            if lp not in nodes and via:
                optional_nodes.add(lp)
    # call-order hints: from a kept node reached by an earlier statement to a kept node reached by a later
    # statement of the same function whose callee takes arguments (dds cannot tell such calls apart from
    # calls with run-time arguments)
    hint_ok = set()
    for fid, f in p["fns"].items():
        heads = []
        for s in f["stmts"]:
            # calls written in the argument list happen (and are analysed) before the call itself
            for a in s.get("args", []):
                if a["k"] == "callarg":
                    ga = p["fns"][a["fn"]]
                    ha_ = set()
                    if ga["data_path"] is not None:
                        ha_.add(ga["data_path"])
                    else:
                        ks, ls = set(), set()
                        first_level(a["fn"], {a["fn"]}, True, ks, ls)
                        ha_ |= ks
                    heads.append((ha_, bool(ga["params"])))
            hs, takes_args = set(), False
            if s["k"] == "keep":
                hs.add(s["path"])
                takes_args = bool(p["fns"][s["fn"]]["params"])
            elif s["k"] in ("call", "ref") or (s["k"] == "nested_def" and s.get("fn")):
                g = p["fns"][s["fn"]]
                takes_args = bool(g["params"])
                if g["data_path"] is not None:
                    hs.add(g["data_path"])
                else:
                    ks, ls = set(), set()
                    first_level(s["fn"], {s["fn"]}, True, ks, ls)
                    hs |= ks
            elif s["k"] in ("method", "clsattr", "clsref"):
                # Cls(arg).method() / Cls.LEVEL: the constructor takes an argument, so the call is context dependent for dds
                takes_args = True
                c = p["classes"][s["cls"]]
                if c.get("calls"):
                    g = p["fns"][c["calls"]]
                    if g["data_path"] is not None:
                        hs.add(g["data_path"])
                    else:
                        ks, ls = set(), set()
                        first_level(c["calls"], {c["calls"]}, True, ks, ls)
                        hs |= ks
            heads.append((hs, takes_args))
        for i, (hs, ta) in enumerate(heads):
            if ta:
                for (hs0, _) in heads[:i]:
                    for u in hs0:
                        for v in hs:
                            hint_ok.add((u, v))
    runtime = hint_ok
    with_params = set(path for path, n in nodes.items() if n["fn"] and p["fns"][n["fn"]]["params"])
    return set(nodes), solid, dashed, dashed_ok, runtime, with_params, loaded_external, optional_nodes


def has_cycle(edges):
    adj = {}
    for a, b in edges:
        adj.setdefault(a, set()).add(b)
    state = {}

    def dfs(u):
        state[u] = 1
        for v in adj.get(u, ()):
            if state.get(v) == 1 or (state.get(v) is None and dfs(v)):
                return True
        state[u] = 2
        return False

    return any(state.get(u) is None and dfs(u) for u in list(adj))


def _entry(p, opts=None):
    f = p["fns"][p["entry"]]
    e = {"style": "eval", "module": gen.modname(p, f["module"]), "func": f["name"], "args_src": "()"}
    if opts:
        e["options"] = opts
    return e


def case_job(arg):
    p, pre, stages, store = arg
    rep = core.Report("C18")
    rep.evaluations = 1
    case = {"program": p, "pre": pre, "stages": stages, "store": store}
    with core.Scratch("vp_c18_") as td:
        root = os.path.join(td, "code")
        os.makedirs(root)
        gfile = os.path.join(td, "graph.plain")
        if p.get("_export_elsewhere"):
            # the graph file is asked for on another file system than the system's temporary directory (and in a directory
            # of its own)
            o = core.other_filesystem_dir(td)
            if o is not None:
                os.makedirs(os.path.join(o, "graphs"), exist_ok=True)
                gfile = os.path.join(o, "graphs", "graph.plain")
        outs = {}
        for label, opts in (("plain", None), ("export", {"dds_export_graph": gfile})):
            if opts and stages:
                opts["dds_stages"] = stages
            steps = []
            accept = [p["pkg"]]
            how = "import"
            if pre is not None:
                accept.append(pre["pkg"])
                # an earlier evaluation in the same process; with _export_too its graph is exported as well (to another file)
                pre_opts = {"dds_export_graph": os.path.join(td, "graph_pre.plain")} if (pre.get("_export_too") and opts) else None
                steps.append({"write": gen.render(pre), "how": "import", "modules": gen.import_order(pre), "entry": _entry(pre, pre_opts)})
                if pre.get("_export_too"):
                    how = "reload"
            steps.append({"write": gen.render(p), "how": how, "modules": gen.import_order(p), "entry": _entry(p, opts)})
            seg = {"mode": "impl", "root": root, "accept": accept, "steps": steps, "store": {"kind": store, "dir": os.path.join(td, "store_" + label)}}
            o = core.fork_call(run_segment, seg, timeout=300)
            if isinstance(o, core.JobFailed):
                rep.inconclusive.append("worker: %r" % (o,))
                return rep
            outs[label] = o["steps"][-1]
        text = open(gfile).read() if os.path.exists(gfile) else None
    a, b = outs["plain"], outs["export"]
    for o in (a, b):
        if "setup_error" in o:
            rep.inconclusive.append(o["setup_error"][-300:])
            return rep
    name = p.get("name", p["pkg"])

    def bad(what, mech, feats=None):
        rep.violate("%s: %s" % (name, what), case, mechanism=mech, features=feats)

    if a["result"][0] != "ok":
        rep.count("programs_that_do_not_evaluate")
        return rep
    rep.count("exports")
    if b["result"][0] != "ok":
        bad("evaluation with dds_export_graph raised %s(%s) while the plain one succeeds" % (b["result"][1], b["result"][2][:200]), "export-raised")
        return rep
    if not stages:
        if pickle.loads(a["result"][1]) != pickle.loads(b["result"][1]):
            bad("result differs with graph export", "export-changed-result")
        if a["syncs"] != b["syncs"]:
            bad("signatures differ with graph export", "export-changed-signatures")
    if (a.get("all_paths") or [None])[-1] != (b.get("all_paths") or [None])[-1]:
        bad("analysis signatures differ with graph export", "export-changed-signatures")
    if text is None:
        bad("no graph file was written", "export-no-file")
        return rep
    gn, ge = parse_plain(text)
    nodes, solid, dashed, dashed_ok, runtime, with_params, ext, optional = truth(p)
    # nodes that dds declared are boxes; an ellipse is a node graphviz made up for a dangling edge end
    names = [n["name"] for n in gn if n["shape"] == "box"]
    for n in gn:
        if n["shape"] != "box":
            rep.count("undeclared_edge_endpoints")
    rep.count("graph_nodes_checked", len(gn))
    rep.count("graph_edges_checked", len(ge))
    # same function kept under two paths (same signature)?
    sigs = dict((b.get("all_paths") or [[]])[-1])
    twins = set()
    by_sig = {}
    for pth, sg in sigs.items():
        by_sig.setdefault(sg, []).append(pth)
    for sg, ps in by_sig.items():
        if len(ps) > 1:
            twins.update(ps)
    for pth in sorted(nodes | ext):
        if pth not in names:
            bad("kept / loaded path %s has no node in the exported graph (nodes: %r)" % (pth, sorted(set(names))), "node-missing-same-signature-twins" if pth in twins else "node-missing")
    for nme in set(names):
        if nme not in nodes | ext | optional:
            bad("graph has a node %s that is no kept or loaded path" % nme, "node-spurious")
    es = set((e["tail"], e["head"]) for e in ge)
    if has_cycle(es):
        bad("exported graph has a cycle", "graph-cyclic")
    got_solid = set((e["tail"], e["head"]) for e in ge if e["style"] == "solid")
    got_dashed = set((e["tail"], e["head"]) for e in ge if e["style"] == "dashed")
    got_other = set((e["tail"], e["head"]) for e in ge if e["style"] not in ("solid", "dashed"))
    tw = lambda e: e[0] in twins or e[1] in twins
    for e in sorted(solid - got_solid):
        bad("solid edge %s -> %s missing (the function kept at %s reaches the keep of %s directly)" % (e[0], e[1], e[1], e[0]), "solid-missing-twins" if tw(e) else "solid-missing")
    for e in sorted(got_solid - solid):
        bad("solid edge %s -> %s although %s is not kept directly by the function at %s" % (e[0], e[1], e[0], e[1]), "solid-spurious-twins" if tw(e) else "solid-spurious")
    # one edge is drawn per pair of nodes: when v also keeps u directly, the solid edge stands for both
    for e in sorted(dashed - got_dashed - got_solid):
        bad("dashed edge %s -> %s missing (%s loads %s)" % (e[0], e[1], e[1], e[0]), "dashed-missing")
    for e in sorted(got_dashed - dashed - dashed_ok):
        bad("dashed edge %s -> %s although %s does not load %s" % (e[0], e[1], e[1], e[0]), "dashed-spurious")
    for e in sorted(got_dashed & dashed_ok):
        rep.count("dashed_edges_through_helpers_reported")
    for e in sorted(got_other):
        # call-order hint: must end at a keep that takes arguments and start at another kept node
        if e not in runtime:
            bad("edge %s -> %s of style %r is neither a dependency nor a call-order hint towards a keep with arguments" % (e[0], e[1], [x["style"] for x in ge if (x["tail"], x["head"]) == e][0]), "other-edge-unjustified")
        else:
            rep.count("call_order_hint_edges")
    if len(nodes) >= 2 and (solid or dashed):
        rep.nontriv(("c18", gen.h(gen.render(p)), bool(stages), store))
    return rep


def programs(tier, seed):
    rng = core.rng_for(seed, "c18")
    ps = []
    k = 0
    for lay in ("three", "one"):
        for ed in (False, True):
            q = progs.base_program("g%d" % k, layout=lay, entry_data=ed)
            q["name"] = "base/%s/%s" % (lay, "data-entry" if ed else "plain-entry")
            ps.append(q)
            k += 1
    for src in (0, 1):
        q = gen.clone(ps[src])
        q["pkg"] = "g%d" % k
        k += 1
        q["name"] = ps[src]["name"] + "+graph-file-on-another-file-system"
        q["_export_elsewhere"] = True
        ps.append(q)
    # a second export in the same process after only the path variables of the data functions changed (module reloaded)
    for lay in ("three", "one"):
        for style in ("var", "pathlib"):
            q = progs.base_program("g%d" % k, layout=lay)
            k += 1
            for nm in ("B", "C", "EMS"):
                q["fns"][q["_ids"][nm]]["path_style"] = style
                q["fns"][q["_ids"][nm]]["path_name"] = "PATH_OF_" + nm  # the variable keeps its name when its value changes
            q["name"] = "moved-data-paths-second-export/%s/%s" % (lay, style)
            old = gen.clone(q)
            for nm in ("B", "C", "EMS"):
                old["fns"][old["_ids"][nm]]["data_path"] += "_old"
            old["_export_too"] = True
            q["_pre_program"] = old
            ps.append(q)
    # nesting depth 1-4 chains, shared sub-nodes, twins, loads
    for depth in (1, 2, 3, 4):
        q = gen.new_program("g%d" % k)
        k += 1
        m = gen.add_module(q, "gm")
        shared = gen.add_fn(q, m, "shared", data_path="/g/shared", const=1)
        prev = None
        chain = []
        for d in range(depth):
            f = gen.add_fn(q, m, "lvl%d" % d, const=d)
            q["fns"][f]["stmts"] = [gen.s_call(shared, [])] + ([gen.s_keep("/g/lvl%d" % (d - 1), prev, [])] if prev else [])
            prev = f
            chain.append(f)
        main = gen.add_fn(q, m, "gmain", const=9)
        q["fns"][main]["stmts"] = [gen.s_keep("/g/lvl%d" % (depth - 1), prev, []), gen.s_call(shared, [])]
        q["entry"] = main
        q["name"] = "chain-depth-%d" % depth
        ps.append(q)
    # three kept levels, the middle (or every) function kept through a module-level alias of its own module (step = fm)
    for which in ("middle", "all"):
        q = gen.new_program("g%d" % k)
        k += 1
        m = gen.add_module(q, "gm")
        fu = gen.add_fn(q, m, "fu", const=1)
        fm = gen.add_fn(q, m, "fm", const=2)
        q["fns"][fm]["stmts"] = [gen.s_keep("/al/u", fu, [])]
        fv = gen.add_fn(q, m, "fv", const=3)
        q["fns"][fv]["stmts"] = [gen.s_keep("/al/m", fm, [])]
        main = gen.add_fn(q, m, "gmain", const=9)
        q["fns"][main]["stmts"] = [gen.s_keep("/al/v", fv, [])]
        for f_ in ((fm,) if which == "middle" else (fu, fm, fv)):
            q["fns"][f_]["alias"] = True
        q["entry"] = main
        q["name"] = "kept-through-same-module-alias/%s" % which
        ps.append(q)
    # one body calls a function directly and also keeps it (in both orders); the function keeps a node itself
    for order in ("call-then-keep", "keep-then-call"):
        q = gen.new_program("g%d" % k)
        k += 1
        m = gen.add_module(q, "gm")
        raw = gen.add_fn(q, m, "raw", data_path="/ck/raw", const=1)
        clean = gen.add_fn(q, m, "clean", const=2)
        q["fns"][clean]["stmts"] = [gen.s_call(raw, [])]
        stage = gen.add_fn(q, m, "stage", const=3)
        st = [gen.s_call(clean, []), gen.s_keep("/ck/clean", clean, [])]
        q["fns"][stage]["stmts"] = st if order == "call-then-keep" else st[::-1]
        main = gen.add_fn(q, m, "gmain", const=9)
        q["fns"][main]["stmts"] = [gen.s_keep("/ck/stage", stage, [])]
        q["entry"] = main
        q["name"] = "called-and-kept-in-one-body/%s" % order
        ps.append(q)
    # path names with characters that mean something in the dot language (port separator, quotes, spaces, ...)
    for names in (["/sp/a:b", "/sp/a", "/sp/x y", "/sp/top"], ["/sp/\"raw\"", "/sp/it's", "/sp/a->b", "/sp/top"], ["/sp/a;b", "/sp/{c}", "/sp/[d]", "/sp/top"]):
        q = gen.new_program("g%d" % k)
        k += 1
        m = gen.add_module(q, "gm")
        leafs = [gen.add_fn(q, m, "sp%d" % i, const=i) for i in range(4)]
        q["fns"][leafs[1]]["stmts"] = [gen.s_keep(names[0], leafs[0], [])]
        q["fns"][leafs[2]]["stmts"] = [gen.s_keep(names[1], leafs[1], []), gen.s_load(names[0])]
        main = gen.add_fn(q, m, "gmain", const=9)
        q["fns"][main]["stmts"] = [gen.s_keep(names[2], leafs[2], []), gen.s_keep(names[3], leafs[3], [])]
        q["entry"] = main
        q["name"] = "special-characters-in-paths/%s" % names[0][4:]
        ps.append(q)
    # a kept node reached through a function object handed to an untracked runner (positionally / by keyword), next to a direct call
    q = gen.new_program("g%d" % k)
    k += 1
    m = gen.add_module(q, "gm")
    shared = gen.add_fn(q, m, "shared", data_path="/cb/s", const=1)
    fa = gen.add_fn(q, m, "direct_user", const=2)
    q["fns"][fa]["stmts"] = [gen.s_call(shared, [])]
    fb = gen.add_fn(q, m, "positional_callback_user", const=3)
    q["fns"][fb]["stmts"] = [gen.s_ref(shared)]
    fc = gen.add_fn(q, m, "keyword_callback_user", const=4)
    q["fns"][fc]["stmts"] = [gen.s_ref(shared, kw=True)]
    main = gen.add_fn(q, m, "gmain", const=9)
    q["fns"][main]["stmts"] = [gen.s_keep("/cb/a", fa, []), gen.s_keep("/cb/b", fb, []), gen.s_keep("/cb/c", fc, [])]
    q["entry"] = main
    q["name"] = "callbacks-handed-to-untracked-runner"
    ps.append(q)
    # two kept functions share a plain helper that reaches a kept node through a second plain helper
    q = gen.new_program("g%d" % k)
    k += 1
    m = gen.add_module(q, "gm")
    fu = gen.add_fn(q, m, "fu", const=1)
    h2 = gen.add_fn(q, m, "inner_helper", const=2)
    q["fns"][h2]["stmts"] = [gen.s_keep("/sh/u", fu, [])]
    h1 = gen.add_fn(q, m, "outer_helper", const=3)
    q["fns"][h1]["stmts"] = [gen.s_call(h2, [])]
    v1 = gen.add_fn(q, m, "v_one", const=4)
    q["fns"][v1]["stmts"] = [gen.s_call(h1, [])]
    v2 = gen.add_fn(q, m, "v_two", const=5)
    q["fns"][v2]["stmts"] = [gen.s_call(h1, [])]
    v3 = gen.add_fn(q, m, "v_three", const=6)
    q["fns"][v3]["stmts"] = [gen.s_call(h2, [])]
    main = gen.add_fn(q, m, "gmain", const=9)
    q["fns"][main]["stmts"] = [gen.s_keep("/sh/v1", v1, []), gen.s_keep("/sh/v2", v2, []), gen.s_keep("/sh/v3", v3, [])]
    q["entry"] = main
    q["name"] = "kept-functions-sharing-plain-helpers"
    ps.append(q)
    # the same function kept under two paths
    q = gen.new_program("g%d" % k)
    k += 1
    m = gen.add_module(q, "gm")
    f = gen.add_fn(q, m, "twice", params=[("a", None)], const=3)
    main = gen.add_fn(q, m, "gmain", const=9)
    q["fns"][main]["stmts"] = [gen.s_keep("/g/t1", f, [gen.lit("1")]), gen.s_keep("/g/t2", f, [gen.lit("1")]), gen.s_keep("/g/t3", f, [gen.lit("2")])]
    q["entry"] = main
    q["name"] = "same-function-two-paths"
    ps.append(q)
    # twins (one function kept under two paths) that are edge ends: kept inside kept stages, one of them loaded by a third stage
    q = gen.new_program("g%d" % k)
    k += 1
    m = gen.add_module(q, "gm")
    table = gen.add_fn(q, m, "table", const=3)
    s1 = gen.add_fn(q, m, "stage_one", const=4)
    q["fns"][s1]["stmts"] = [gen.s_keep("/tw/one/table", table, [])]
    s2 = gen.add_fn(q, m, "stage_two", const=5)
    q["fns"][s2]["stmts"] = [gen.s_keep("/tw/two/table", table, [])]
    s3 = gen.add_fn(q, m, "stage_three", const=6)
    q["fns"][s3]["stmts"] = [gen.s_load("/tw/one/table")]
    main = gen.add_fn(q, m, "gmain", const=9)
    q["fns"][main]["stmts"] = [gen.s_keep("/tw/s1", s1, []), gen.s_keep("/tw/s2", s2, []), gen.s_keep("/tw/s3", s3, [])]
    q["entry"] = main
    q["name"] = "twins-as-edge-ends"
    ps.append(q)
    # run-time argument chains
    q = gen.new_program("g%d" % k)
    k += 1
    m = gen.add_module(q, "gm")
    fs = [gen.add_fn(q, m, "rt%d" % i, params=[("a", None)], const=i) for i in range(4)]
    z = gen.add_fn(q, m, "zero", data_path="/g/zero", const=7)
    main = gen.add_fn(q, m, "gmain", const=9)
    q["fns"][main]["stmts"] = [gen.s_call(z, []), gen.s_keep("/g/r0", fs[0], [gen.lit("1")]), gen.s_keep("/g/r1", fs[1], [gen.local(1)]), gen.s_keep("/g/r2", fs[2], [gen.local(2)]), gen.s_keep("/g/r3", fs[3], [gen.lit("5")])]
    q["entry"] = main
    q["name"] = "runtime-argument-chain"
    ps.append(q)
    # call-order hints that run against each other or against real dependencies (the graph must stay acyclic)
    for shape in ("hints-opposite-orders", "hints-vs-solid-edge", "hint-vs-dashed-edge", "same-node-reached-by-two-siblings"):
        q = gen.new_program("g%d" % k)
        k += 1
        m = gen.add_module(q, "gm")
        a = gen.add_fn(q, m, "na", data_path="/h/a", const=1)
        b = gen.add_fn(q, m, "nb", data_path="/h/b", const=2)
        ha = gen.add_fn(q, m, "helper_a", params=[("v", None)], const=3)
        q["fns"][ha]["stmts"] = [gen.s_call(a, [])]
        hb = gen.add_fn(q, m, "helper_b", params=[("v", None)], const=4)
        q["fns"][hb]["stmts"] = [gen.s_call(b, [])]
        main = gen.add_fn(q, m, "gmain", const=9)
        if shape == "hints-opposite-orders":
            f1 = gen.add_fn(q, m, "first", const=5)
            q["fns"][f1]["stmts"] = [gen.s_call(a, []), gen.s_call(hb, [gen.local(0)])]
            f2 = gen.add_fn(q, m, "second", const=6)
            q["fns"][f2]["stmts"] = [gen.s_call(b, []), gen.s_call(ha, [gen.local(0)])]
            q["fns"][main]["stmts"] = [gen.s_call(f1, []), gen.s_call(f2, [])]
        elif shape == "hints-vs-solid-edge":
            c = gen.add_fn(q, m, "nc", data_path="/h/c", const=7)
            q["fns"][c]["stmts"] = [gen.s_call(b, [])]
            f1 = gen.add_fn(q, m, "first", const=5)
            q["fns"][f1]["stmts"] = [gen.s_call(a, []), gen.s_call(hb, [gen.local(0)])]
            f2 = gen.add_fn(q, m, "second", const=6)
            q["fns"][f2]["stmts"] = [gen.s_call(c, []), gen.s_call(ha, [gen.local(0)])]
            q["fns"][main]["stmts"] = [gen.s_call(f1, []), gen.s_call(f2, [])]
        elif shape == "same-node-reached-by-two-siblings":
            q["fns"][main]["stmts"] = [gen.s_call(a, []), gen.s_call(ha, [gen.local(0)]), gen.s_call(b, []), gen.s_call(hb, [gen.lit("1")])]
        else:
            q["fns"][a]["stmts"] = [gen.s_load("/h/b")]
            q["fns"][main]["stmts"] = [gen.s_call(b, []), gen.s_call(a, []), gen.s_call(hb, [gen.local(1)])]
        # the definitions must precede their uses in the module
        order = q["order"][m]
        q["order"][m] = [x for x in order if x[1] in (a, b)] + [x for x in order if x[1] not in (a, b, main)] + [("fn", main)]
        if shape == "hint-vs-dashed-edge":
            q["order"][m] = [("fn", b), ("fn", a)] + [x for x in order if x[1] not in (a, b, main)] + [("fn", main)]
        q["entry"] = main
        q["name"] = shape
        ps.append(q)
    # loads: by a kept function (own body / through helper), of an internal and an external path
    from checks import c09

    for placement in ("kept", "kept_helper", "top"):
        for producer in ("data", "keep"):
            q = c09.build("g%d" % k, placement, producer, "same_before")
            k += 1
            q["name"] = "load/%s/%s/same-evaluation" % (placement, producer)
            ps.append(q)
            q = c09.build("g%d" % k, placement, producer, "earlier_eval")
            k += 1
            q["name"] = "load/%s/%s/earlier-evaluation" % (placement, producer)
            q["_pre_entry"] = q["_ids"]["pmain"]
            ps.append(q)
    n = 40 if tier == "quick" else 600
    tries = 0
    while n > 0 and tries < 5000:
        tries += 1
        q = progs.random_program(rng, "g%d" % k)
        if len(gen.kept_nodes(q)) >= 2:
            k += 1
            n -= 1
            q["name"] = "random%d" % k
            ps.append(q)
    return ps


def run(tier, seed):
    rep = core.Report("C18")
    if shutil.which("dot") is None:
        rep.inconclusive.append("graphviz 'dot' not found")
        return rep
    rep.rule = (
        "programs: matrix skeletons (2 layouts x plain/data entry), keep chains of nesting depth 1-4 with a shared data function, the same function kept under two paths, run-time-argument chains, "
        "loads by kept functions (own body / helper / top level; producer in the same or an earlier evaluation) and random DAG programs; each evaluated with and without dds_export_graph=<file>.plain "
        "(also restricted to the analysis stage; also as the second export of a process that first exported the same program with other data-function path variables); the file is parsed back and compared with the generator's ground truth (kept paths, first-level keep reachability, loads). "
        "distinct_nontrivial = distinct programs with >=2 nodes and >=1 dependency whose graph was checked."
    )
    jobs = []
    for i, p in enumerate(programs(tier, seed)):
        pre = None
        if p.get("_pre_entry"):
            pre = dict(gen.clone(p), entry=p["_pre_entry"])
        if p.get("_pre_program"):
            pre = p.pop("_pre_program")
        jobs.append((p, pre, None, "local"))
        if i % 3 == 0:
            jobs.append((p, pre, ["analysis"], "memory"))
    results = core.fork_map(case_job, jobs, timeout=900)
    for j, r in zip(jobs, results):
        if isinstance(r, core.JobFailed):
            rep.inconclusive.append("case: %r" % (r,))
            continue
        rep.merge(r)
    rep.sample({"program": jobs[0][0]["name"], "truth_solid_edges": sorted(truth(jobs[0][0])[1])})
    if not rep.counters.get("graph_edges_checked"):
        rep.inconclusive.append("no exported edge was observed")
    rep.assumptions = ["a load reached only through non-kept helpers may or may not be drawn as a dashed edge (reported, not judged)", "dotted edges are optional hints: only their end points are checked"]
    return rep


def replay(payload):
    rep = core.Report("C18")
    c = payload["case"]
    rep.merge(case_job((c["program"], c["pre"], c["stages"], c["store"])))
    return rep
