#!/bin/bash
# developer helper: runs every check's thorough tier (seed from $1, default 0), one line per run
cd /verif
sd=${1:-0}
for c in ${CHECKS:-C01 C02 C03 C04 C05 C06 C07 C08 C09 C10 C11 C12 C13 C14 C15 C16 C17 C18 C19}; do
  s=$(date +%s)
  out=$(VERIF_SEED=$sd /venv/bin/python run_check.py $c --tier thorough 2>&1)
  rc=$?
  echo "$c thorough seed=$sd exit=$rc $(( $(date +%s) - s ))s $(echo "$out" | grep -E "HELD|VIOLATION|INCONCLUSIVE" | head -2 | cut -c1-200 | tr '\n' ' ')"
  if [ $rc -ne 0 ]; then echo "$out" | grep "what:\|reason" | head -8 | cut -c1-500; fi
done
