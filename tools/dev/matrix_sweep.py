import sys,os,json
sys.path.insert(0,'/verif')
from vp import core; core.setup_repo_path()
import logging; logging.disable(logging.CRITICAL)
import dds
from vp import gen, progs, e1, e1run
import time
t=time.time()
cases=progs.matrix_cases("thorough",0)
print(len(cases),"cases")
rep=core.Report("C01")
e1run.run_cases(cases,"C01",["values","memo","paths"],rep)
print("t",time.time()-t, rep.counters, rep.inconclusive[:2], rep.extra)
from collections import Counter
c=Counter()
ex={}
for v in rep.violations:
    name=v.case["case"]["name"]
    k=(name.split("|")[0], v.what.split(":")[1][:60] if ":" in v.what else v.what[:60])
    c[k]+=1
    ex.setdefault(k, v.what)
for k,n in sorted(c.items()): print(n,k)
print()
seen=set()
for k,w in ex.items():
    print(k[0],"::",w[:600]); print()
