#!/bin/bash
# developer helper: runs every check's quick tier for the given seeds and prints one line per run
cd /verif
for sd in ${@:-0}; do
for c in C01 C02 C03 C04 C05 C06 C07 C08 C09 C10 C11 C12 C13 C14 C15 C16 C17 C18 C19; do
  s=$(date +%s)
  out=$(VERIF_SEED=$sd /venv/bin/python run_check.py $c 2>&1)
  rc=$?
  echo "$c seed=$sd exit=$rc $(( $(date +%s) - s ))s $(echo "$out" | grep -E "HELD|VIOLATION|INCONCLUSIVE" | head -2 | cut -c1-160 | tr '\n' ' ')"
  if [ $rc -ne 0 ]; then echo "$out" | grep "what:" | head -5 | cut -c1-400; fi
done
done
