import sys,os,json
sys.path.insert(0,'/verif')
from vp import core; core.setup_repo_path()
import logging; logging.disable(logging.CRITICAL)
import dds
from vp import gen, progs, e1, e1run
import time, random
t=time.time()
which=sys.argv[1]
if which=="zero":
    cases=progs.zero_edit_cases("thorough",0,stores=("local","local_lru","memory"))
else:
    rng=random.Random(int(sys.argv[2]) if len(sys.argv)>2 else 0)
    cases=[progs.random_case(rng,i,rng.choice(["local","local_lru","memory","noop"])) for i in range(int(sys.argv[3]) if len(sys.argv)>3 else 300)]
print(len(cases),"cases")
rep=core.Report("C01")
e1run.run_cases(cases,"C01",["values","memo","paths"],rep)
print("t",time.time()-t, rep.counters, rep.inconclusive[:2], rep.extra)
from collections import Counter
c=Counter()
ex={}
for v in rep.violations:
    name=v.case["case"]["name"]
    k=(v.what.split("(",1)[1][:50] if "(" in v.what else "", v.what.split("):")[1][:50] if "):" in v.what else v.what[:60])
    c[k]+=1
    ex.setdefault(k, (name,v.what,v))
for k,n in sorted(c.items()): print(n,k)
print()
for k,(name,w,v) in list(ex.items())[:12]:
    print(name,"::",w[:700]); print()
import pickle
pickle.dump([ (v.what, v.case) for v in rep.violations], open("/tmp/m2.viol","wb"))
