#!/usr/bin/env python3
"""Line-ending-preserving exact replacement: sub.py FILE OLD_FILE NEW_FILE (texts use \n)."""
import sys
p, oldp, newp = sys.argv[1:4]
b = open(p, 'rb').read()
crlf = b'\r\n' in b
old = open(oldp, 'rb').read()
new = open(newp, 'rb').read()
if crlf:
    old = old.replace(b'\r\n', b'\n').replace(b'\n', b'\r\n')
    new = new.replace(b'\r\n', b'\n').replace(b'\n', b'\r\n')
n = b.count(old)
if n != 1:
    sys.exit("expected exactly 1 occurrence, found %d" % n)
open(p, 'wb').write(b.replace(old, new))
print("patched", p, "crlf" if crlf else "lf")
