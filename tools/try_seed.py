#!/venv/bin/python
"""Developer tool: evaluate a seeded change.

  try_seed.py <seed_dir> [--checks C01,C02] [--tier quick] [--all]

<seed_dir> holds patch.diff and demo.py.  A scratch worktree of /repo HEAD is created under /tmp,
then: (1) demo.py must pass on the clean worktree, (2) the patch is applied, the repository's own
tests must still pass (59) and demo.py must now fail, (3) the selected checks are run against the
patched worktree (VERIF_REPO) and their verdicts are printed.  The worktree is removed at the end.
Nothing is ever applied to /repo itself.
"""
import argparse
import json
import os
import re
import subprocess
import sys
import tempfile
import time

VERIF = os.path.dirname(os.path.dirname(os.path.abspath(__file__)))
PY = "/venv/bin/python"


def sh(cmd, cwd=None, env=None, timeout=3600):
    r = subprocess.run(cmd, shell=True, cwd=cwd, env=env, capture_output=True, text=True, timeout=timeout)
    return r.returncode, (r.stdout + r.stderr)


def main():
    ap = argparse.ArgumentParser()
    ap.add_argument("seed")
    ap.add_argument("--checks", default=None)
    ap.add_argument("--tier", default="quick")
    ap.add_argument("--all", action="store_true")
    ap.add_argument("--skip-tests", action="store_true")
    ap.add_argument("--seeds", default="0")
    a = ap.parse_args()
    seed = os.path.abspath(a.seed)
    patch = os.path.join(seed, "patch.diff")
    demo = os.path.join(seed, "demo.py")
    wt = tempfile.mkdtemp(prefix="seedwt_")
    os.rmdir(wt)
    out = {"seed": seed}
    try:
        rc, o = sh("git -C /repo worktree add -q --detach %s HEAD" % wt)
        assert rc == 0, o
        env = dict(os.environ, PYTHONPATH=wt, PYTHONDONTWRITEBYTECODE="1")
        if os.path.exists(demo):
            rc, o = sh("%s %s" % (PY, demo), cwd=wt, env=env, timeout=900)
            out["demo_on_clean"] = "pass" if rc == 0 else "FAIL rc=%d %s" % (rc, o[-300:])
        rc, o = sh("git apply %s" % patch, cwd=wt)
        if rc != 0:
            rc, o = sh("git apply --ignore-whitespace %s" % patch, cwd=wt)
        assert rc == 0, "patch does not apply: " + o
        rc, o = sh("git diff --stat", cwd=wt)
        out["diffstat"] = o.strip().splitlines()[-1] if o.strip() else "?"
        if not a.skip_tests:
            rc, o = sh("%s -m pytest -q -p no:cacheprovider --timeout=900 dds_tests 2>&1 | tail -3" % PY, cwd=wt, env=env, timeout=1800)
            m = re.search(r"(\d+) passed", o)
            out["tests"] = o.strip().splitlines()[-1]
            out["tests_ok"] = bool(m and int(m.group(1)) >= 59)
        if os.path.exists(demo):
            rc, o = sh("%s %s" % (PY, demo), cwd=wt, env=env, timeout=900)
            out["demo_on_patched"] = "fails (as intended)" if rc != 0 else "PASSES (change not demonstrated)"
        checks = []
        if a.all:
            checks = ["C%02d" % i for i in range(1, 20)]
        elif a.checks:
            checks = a.checks.split(",")
        verdicts = {}
        for c in checks:
            for sd in a.seeds.split(","):
                env2 = dict(os.environ, VERIF_REPO=wt, VERIF_SEED=sd)
                t = time.time()
                rc, o = sh("%s run_check.py %s --tier %s" % (PY, c, a.tier), cwd=VERIF, env=env2, timeout=7200)
                lines = [l for l in o.splitlines() if "condarc" not in l]
                what = [l.strip()[:260] for l in lines if l.strip().startswith("what:")][:3]
                verdicts["%s/seed%s" % (c, sd)] = {"exit": rc, "secs": round(time.time() - t), "what": what, "tail": [l[:200] for l in lines if l.startswith(("VIOLATION", "INCONCLUSIVE", c))][-3:]}
                print(c, "seed", sd, "exit", rc, "(%ds)" % (time.time() - t), (what[:1] or [""])[0][:200], flush=True)
        out["checks"] = verdicts
    finally:
        sh("git -C /repo worktree remove --force %s" % wt)
        # evidence files were overwritten by runs against the patched tree: restore the committed ones
        sh("git checkout -- evidence", cwd=VERIF)
    print(json.dumps(out, indent=1))


if __name__ == "__main__":
    main()
