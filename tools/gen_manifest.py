#!/usr/bin/env python3
"""Regenerates MANIFEST.json from the table below (developer tool, not run by checks)."""
import json
import os

HERE = os.path.dirname(os.path.dirname(os.path.abspath(__file__)))
PY = "/venv/bin/python"

ENGINES = [
    {"name": "E1-pipeline", "path": "vp/gen.py vp/worker.py vp/refdds.py vp/e1.py", "serves_properties": ["C01", "C02", "C03", "C04", "C09", "C10", "C11", "C14", "C15", "C18"],
     "kind_free_text": "differential runtime monitor: generated pipelines run by the real dds (forked fresh processes, CapturingStore, execution log) and by a dds-free reference on the same files; oracles over values, execution logs and path->signature maps"},
    {"name": "E2-values", "path": "vp/values.py", "serves_properties": ["C05", "C13"],
     "kind_free_text": "bulk value/argument hashing monitor with canonical-form collision oracle, cross-process determinism"},
    {"name": "E3-fs", "path": "vp/fsshim.py vp/sched.py", "serves_properties": ["C06", "C07"],
     "kind_free_text": "file-system failpoints (crash at every FS-op boundary) and controlled multi-process scheduler over real dds processes"},
    {"name": "E4-store", "path": "vp/storemodel.py vp/fakedbutils.py", "serves_properties": ["C08", "C12", "C16", "C17", "C19"],
     "kind_free_text": "lock-step reference-model monitors at the Store API, tree walks of the scratch root, fake dbutils"},
]

# pid -> (level category, text, design_ref, note, technique, engine)
CHECKS = {}


def add(pid, cat, text, note, technique, engine, design_ref=None):
    text = text + " (Numbers in this summary are those of the first build; the workloads added since - one or two per round of independently written changes - are listed in DESIGN.md 13.1, and the `rule` text of the evidence file is the current inventory.)"
    CHECKS[pid] = dict(cat=cat, text=text, note=note, technique=technique, engine=engine, design_ref=design_ref or ("DESIGN.md 5 (%s)" % pid))


add("C05", "exploration",
    "Runtime monitor over dds_hash / dds.keep: every generated value (exhaustive small-width containers over a boundary alphabet, sampled deeper ones) is hashed in three interpreter processes; oracle = outcome is a signature or a coded DDS error, equal across processes, and no signature class holds two canonical forms. Held on the values observed; known collision mechanisms are listed findings.",
    "trusts the canonical-form function (documented identifications) and sha256; universality only up to the enumerated bounds",
    "runtime monitoring: bulk hashing monitor + canonical-form collision oracle + cross-process determinism", "E2-values")

add("C13", "exploration",
    "Runtime monitor over Store.sync_paths: every spelling (positional prefix x keyword permutations x explicit/omitted defaults) of sampled and exhaustive bindings of generated functions is kept directly and as in-source literals under dds.eval; oracle = one signature per binding class, distinct classes distinct, within and across modes. Held on the calls observed.",
    "binding classes computed with inspect.signature().bind + apply_defaults and the documented value identifications; positional-or-keyword parameters only",
    "runtime monitoring: signature capture at Store.sync_paths + partition oracle over spellings", "E2-values")

add("C08", "exploration",
    "Lock-step dictionary-model monitor at the Store API for MemoryStore, LocalFileStore, cache-wrapped local and DBFS over a fake dbutils: bulk commits of all 819 paths of <=3 segments over a hostile segment alphabet (each with its own key, resolved back), random operation sequences with reopen, the same paths through dds.keep/dds.load, and a no-follow tree walk for containment. Held on the sequences observed.",
    "path sets per store are prefix-free; fake dbutils stands in for DBFS; keys stored with one value only",
    "runtime monitoring: reference-model (dictionary) monitor at the Store API + file-tree containment walk", "E4-store")
add("C12", "exploration",
    "Lock-step monitor: LRUCacheStore(S1,n) and a bare twin S2 get the same operations; every has/fetch/fetch_paths answer compared (all sequences up to length 3-4 over 14 operations x 5 capacities x 2 underlying stores, plus random length-30 sequences); fetched objects tracked by weak references and counted after gc against the capacity. Held on the sequences observed.",
    "content-addressed discipline; object liveness observed through weakrefs after gc.collect() in CPython",
    "runtime monitoring: lock-step differential monitor (wrapped vs bare store) + weakref liveness bound", "E4-store")

add("C19", "exploration",
    "Monitor over a directory-backed fake of dbutils.fs: for every documented commit type (three spellings each, plus default) sequences of keeps/re-keeps of 10 value types are followed by inspection of the backing tree (byte-identical copy + redirect record for full, record only for links_only, nothing for none) and loads of every kept path; legacy codec references are injected into .meta files and read back by a new store. Held on the runs observed.",
    "the fake dbutils is the trusted stand-in for DBFS (head/put/cp/rm semantics); Spark frames not covered",
    "runtime monitoring: file-effect monitor over a fake dbutils + value oracle", "E4-store")

add("C17", "exploration",
    "Monitor at keep/load/fetch_blob with recording proxies on every registered codec instance: 19 result values (text, bytes, None, objects, frames, user-codec types) are written, codec registrations are changed (new codecs claiming the same types through both registration APIs, built-ins re-registered in reverse), then everything is read in the same process, through a new store object and in another process; oracle = value and type equal, decoding codec ref == ref recorded at write time, str/bytes blobs byte-identical to the UTF-8 text / the bytes. Held on the runs observed.",
    "bytearray may come back as bytes; frames limited to what parquet round-trips; fake dbutils for DBFS",
    "runtime monitoring: recording proxies on codec instances + raw-byte inspection of blob files", "E4-store")

add("C16", "exploration",
    "Monitor of values and execution logs across processes: each of the 25 internal/data directory form combinations (absolute, relative, trailing slash, nested missing, symlinked parent) x cache_objects settings is configured in process A (keep, load, chdir, load, re-keep), read and re-kept in process B (other cwd, absolute paths) and process C (same spelling) with an empty execution log required; two-view scripts check blob sharing and path independence. Held on the configurations observed.",
    "one local file system with symlink support; forked children of a pristine interpreter stand for fresh processes",
    "runtime monitoring: cross-process value + execution-log monitor over store configurations", "E4-store")

add("C01", "exploration",
    "Differential runtime monitor: every generated pipeline history (edit matrix of dependency kind x position x process mode x entry style, random DAG programs with 6-10 step histories, code in packages / __main__ script / IPython cells, stores local / local+cache / memory / noop) is run by the real dds in forked fresh processes and by a dds-free reference on the same files; oracle = every returned value equals the reference, no rejection of a supported program. Held on the histories observed.",
    "supported subset of DESIGN.md 3.1; reference = same files with `dds` bound to a stub that just calls the functions",
    "runtime monitoring: differential value monitor (real dds vs dds-free reference run) over generated edit histories", "E1-pipeline")
add("C02", "exploration",
    "Execution-log + signature monitor: generated code logs every function body that runs, a wrapping Store records the path->signature map of each evaluation; oracle = a kept node whose dependency-cone fingerprint (DESIGN.md 4.1, from generator ground truth) was evaluated before against the same store neither executes nor changes signature - over zero-edit transitions (restart, unrelated additions, reordering, non-accepted edits, relocation, entry-style switch), every single edit of the matrix, and random histories. Held on the histories observed.",
    "cone definition of DESIGN.md 4.1; memory store only within a process; noop excluded",
    "runtime monitoring: execution-log and Store.sync_paths monitor with dependency-cone fingerprint oracle", "E1-pipeline")
add("C04", "exploration",
    "Path monitor: after every evaluation of generated histories every path kept so far is loaded in the evaluating process and in a fresh process and, for str results, read from <data_dir>/<path>; oracle = model path->value fed by the reference run (only paths the evaluation kept are updated). Stores memory, local, local+cache, DBFS(fake); paths of 1-4 segments with shared directories and ambiguous names. Held on the histories observed.",
    "fake dbutils for DBFS; memory store within one process",
    "runtime monitoring: post-evaluation load monitor (same + fresh process, raw file) against a path model", "E1-pipeline")

add("C03", "exploration",
    "Signature monitor at Store.sync_paths, every variant in a brand-new interpreter: per generated program ~20 environment variants (hash seeds, cwd, package location incl. symlink, 5 store kinds, extra_debug, graph export, call vs eval, repeated evaluation, after k other evaluations, after edit+revert in-process) must give the map of the base run; a committed corpus of 40 programs must give its pinned maps byte-for-byte. Held on the programs and variants observed.",
    "stability across library changes is only observable from the pin (corpus/pinned.json, generated after this work's fix: commits) onwards",
    "runtime monitoring: cross-environment signature-map equality monitor + pinned-corpus regression oracle", "E1-pipeline")

add("C11", "exploration",
    "Rejection monitor: generated ill-formed evaluations - every ordered set of 1-3 kept paths (sampled sets of 4) over 18 paths with 5 placements, every call cycle of length 1-4 over 4 edge kinds, dds.eval nested at depth 0-4 behind calls/keeps/methods - are run by the real dds; oracle from generator ground truth = expected DDS error code, empty execution log, no store_blob / sync_paths, unchanged store tree, clean context, and a working follow-up evaluation. Held on the cases observed (one listed finding).",
    "offending calls live in accepted modules; ground truth = strict-prefix relation on segment sequences and the generated call graph",
    "runtime monitoring: error-code / execution-log / store-effect monitor with generator ground truth", "E1-pipeline")
add("C15", "exploration",
    "Dry-run monitor: programs x every prefix of the stage order in 5 spellings x 3 stores x fresh/populated store; observed: execution log, store_blob and sync_paths calls at a wrapping Store, store tree hash, signature map of the restricted run, path state before/after, and value / log / signatures of the following full evaluation (same or new process) against a clean twin run and the dds-free reference. Held on the cases observed.",
    "dry-run signature map read through a counted harness wrapper on an internal helper",
    "runtime monitoring: side-effect monitor (log, Store calls, tree hash) + twin-run signature comparison", "E1-pipeline")

add("C14", "exploration",
    "Boundary monitor: for leaf modules at depth 1-6, every accepted dotted prefix (and none), accept sets of 1-40 names in both registration orders and 3 import forms, the Store.sync_paths signature map and the value are observed in fresh processes before and after an edit of the leaf function / leaf variable / a non-accepted sibling's function / variable; oracle = signatures change iff the edited module is covered by an accepted name, and the value follows; data functions in non-accepted modules must be refused with a DDS error naming the module, never run. Held on the configurations observed.",
    "ground truth = dotted-prefix coverage of the edited module by the accepted names",
    "runtime monitoring: before/after signature-map monitor across the accepted-module boundary", "E1-pipeline")

add("C10", "exploration",
    "Failure monitor: every function reachable from the entry of generated programs is made to raise (6 exception classes incl. BaseException subclasses, before/after its sub-calls); observed: identity of the exception object at the call site, store_blob keys and sync_paths calls of the failed evaluation vs the signatures of completed / waiting nodes, path state before/after, context reset, then value and execution log of the repaired pipeline, another pipeline and the repaired one again in the same (or a new) process. Held on the cases observed.",
    "constrains kept nodes only; signature map of the failed evaluation read through the counted all_store_paths wrapper",
    "runtime monitoring: exception-identity + store-effect monitor with follow-up evaluations", "E1-pipeline")

add("C09", "exploration",
    "Load monitor: 5 placements of dds.load x producer kind x timing (earlier in the evaluation, later in it, earlier evaluation, never) x producer edits and unrelated edits x stores; observed: the entry value (which embeds what every load returned) vs the dds-free reference with latest-keep-in-program-order semantics, the execution log of the kept reader (re-evaluated iff the path serves a new result; cone fingerprint incl. what externally produced paths currently serve), and the exception class of read-before-produce evaluations (must be a DDS error). Held on the combinations observed.",
    "literal paths; one load site per path and evaluation",
    "runtime monitoring: differential value monitor with load semantics + reader execution-log monitor", "E1-pipeline")

add("C18", "exploration",
    "Graph monitor: programs (skeletons, keep chains of depth 1-4 with shared sub-nodes, one function under several paths, run-time-argument chains, loads, random DAGs) are evaluated with and without dds_export_graph=<file>.plain (also analysis-only); the file rendered by graphviz is parsed back; oracle from generator ground truth = same result and signatures, export never raises, acyclic, declared nodes = kept paths + paths loaded by kept functions, solid edges exactly the first-level keep reachability, dashed edges exactly the own-body loads, other edges only call-order hints between siblings. Held on the programs observed (one listed finding).",
    "loads reached only through non-kept helpers are optional; dotted hints may end at any kept node first reached by a sibling call that takes arguments",
    "runtime monitoring: exported-artifact monitor (graph parsed back) against generator ground truth + with/without differential", "E1-pipeline")

add("C06", "fault_enumeration",
    "Crash-point enumeration on the real code: 12 scenarios (cold/warm first keeps of text, pickle, bytes, None; re-keep with changed and same code; nested eval with shared directory; store creation explicit and default; path commit with existing blob; second data view) run under a file-system shim; every operation boundary (stat, mkdir, open, each half of each write, close, rename, symlink, ...) found by a dry run is a crash point where the process is terminated with os._exit(137); fresh processes then load previously committed paths (old or new value), re-evaluate (reference value) and load everything. Exhaustive over the boundaries of these scenarios.",
    "kill -9 semantics (completed operations durable); boundaries at Python-visible operation granularity; native writers (parquet) not split",
    "runtime monitoring: fault injection at every FS-operation boundary (failpoint shim) + recovery-process oracle", "E3-fs")

add("C07", "exploration",
    "Controlled-concurrency exploration on the real code: 9 scenarios of 2-3 real processes (same keep on a cold store, re-keep vs reader, keep-new vs keep-old, nested evals plus reader, default-store creation race, one internal dir with two data views) run under a scheduler that serialises them at every file-system operation boundary (incl. each half of each write); all schedules with <=1 (quick) / <=2 (thorough) preemptions are executed depth-first by re-execution; oracle = every returning keep/load gives the complete correct value, nobody raises, and fresh processes afterwards load and re-evaluate everything correctly. Held on the schedules executed.",
    "exhaustive only up to the preemption bound / execution budget and at Python-visible operation granularity; single FS operations assumed atomic",
    "runtime monitoring: controlled scheduler over real processes (systematic interleaving exploration, preemption-bounded) + outcome oracle", "E3-fs")

NOT_YET = {}


def main():
    props = [json.loads(l)["id"] for l in open(os.path.join(HERE, "properties.jsonl"))]
    checks = []
    for pid in props:
        if pid not in CHECKS:
            continue
        c = CHECKS[pid]
        checks.append({
            "property_id": pid,
            "quick_cmd": "%s run_check.py %s --tier quick" % (PY, pid),
            "thorough_cmd": "%s run_check.py %s --tier thorough" % (PY, pid),
            "evidence_file": "/verif/evidence/%s.json" % pid,
            "replay_cmd_template": "%s run_check.py %s --replay {path}" % (PY, pid),
            "engine": c["engine"],
            "level_claimed": {"category": c["cat"], "text": c["text"], "design_ref": c["design_ref"]},
            "level_note": c["note"],
            "technique": c["technique"],
        })
    na = []
    for pid in props:
        if pid not in CHECKS:
            na.append({"property_id": pid, "reason": NOT_YET.get(pid, "check not built yet in this round (runtime monitor designed in DESIGN.md 5, framework under construction); not claimed until its check runs silent on the unchanged tree")})
    hooks_commits = []
    hp = os.path.join(HERE, "hooks_commits.txt")
    if os.path.exists(hp):
        hooks_commits = [l.strip() for l in open(hp) if l.strip()]
    m = {
        "version": 1,
        "setup_cmd": "%s -c \"import sys; sys.path.insert(0, '/verif'); import vp.core; import jsonschema; print('ok')\"" % PY,
        "hooks": {
            "guard": "DDS_PY_VERIF",
            "enable": "no source hooks are needed: every observation point is installed from the harness (wrapping Store via dds.set_store, sys.addaudithook, module-attribute patches in forked workers); checks export DDS_PY_VERIF=1 for completeness",
            "baseline_off_cmd": "cd /repo && /venv/bin/python -m pytest -ra -q -p no:cacheprovider --timeout=900 --continue-on-collection-errors",
            "source_commits": hooks_commits,
            "add_only": True,
        },
        "engines": ENGINES,
        "checks": checks,
        "not_applicable": na,
        "notes": "All checks are runtime monitors run against /repo's working tree (VERIF_REPO overrides the tree for self-tests on scratch copies). exit 0 held / 1 VIOLATION / 2 INCONCLUSIVE. Known findings: known_findings.json.",
    }
    with open(os.path.join(HERE, "MANIFEST.json"), "w") as f:
        json.dump(m, f, indent=1)
    import jsonschema
    jsonschema.validate(m, json.load(open("/root/.vp/MANIFEST.schema.json")))
    print("MANIFEST ok: %d checks, %d not_applicable" % (len(checks), len(na)))


if __name__ == "__main__":
    main()
