#!/venv/bin/python
"""Developer tool: runs tools/try_seed.py for every seeded/<id>/ and writes seeded/<id>/meta.json."""
import json
import os
import subprocess
import sys

VERIF = os.path.dirname(os.path.dirname(os.path.abspath(__file__)))


def main():
    only = sys.argv[1:]
    for sid in sorted(os.listdir(os.path.join(VERIF, "seeded"))):
        d = os.path.join(VERIF, "seeded", sid)
        if not os.path.isdir(d) or (only and sid not in only):
            continue
        prop = sid.split("_")[0]
        r = subprocess.run(["/venv/bin/python", os.path.join(VERIF, "tools", "try_seed.py"), d, "--checks", prop], capture_output=True, text=True)
        txt = r.stdout
        js = txt[txt.index("\n{") + 1:] if "\n{" in txt else "{}"
        try:
            out = json.loads(js)
        except Exception:
            out = {"error": txt[-500:] + r.stderr[-500:]}
        notes = open(os.path.join(d, "NOTES.md")).read() if os.path.exists(os.path.join(d, "NOTES.md")) else ""
        ck = (out.get("checks") or {}).get("%s/seed0" % prop, {})
        meta = {
            "id": sid,
            "breaks_property": prop,
            "origin": "written by an independent sub-agent that saw only the property text and a scratch worktree of /repo (nothing from /verif)",
            "what_it_needs_to_manifest": _needs(notes),
            "confirmed": {
                "demo_passes_on_unchanged_tree": out.get("demo_on_clean"),
                "patch_diffstat": out.get("diffstat"),
                "repository_tests_with_patch": out.get("tests"),
                "repository_tests_ok": out.get("tests_ok"),
                "demo_with_patch": out.get("demo_on_patched"),
            },
            "what_was_run": "tools/try_seed.py seeded/%s --checks %s  (scratch worktree of /repo HEAD + patch, VERIF_REPO pointed at it, quick tier, seed 0)" % (sid, prop),
            "check_result": {"check": prop, "exit": ck.get("exit"), "seconds": ck.get("secs"), "first_violations": ck.get("what")},
            "detected": ck.get("exit") == 1,
        }
        mp = os.path.join(d, "meta.json")
        if os.path.exists(mp):
            # the verdict of the first evaluation (before any strengthening prompted by this change) is kept
            try:
                old = json.load(open(mp))
                meta["first_verdict"] = old.get("first_verdict") or {"detected": old.get("detected"), "check_result": old.get("check_result")}
            except Exception:
                pass
        with open(os.path.join(d, "meta.json"), "w") as f:
            json.dump(meta, f, indent=1)
        print(sid, "detected" if meta["detected"] else "MISSED", ck.get("exit"), (ck.get("what") or [""])[0][:150], flush=True)


def _needs(notes):
    low = notes.lower()
    for key in ("what it needs", "needs to manifest", "to manifest"):
        i = low.find(key)
        if i >= 0:
            return " ".join(notes[i:i + 900].split())
    return " ".join(notes[:600].split())


if __name__ == "__main__":
    main()
