#!/venv/bin/python
"""
CLI of the runtime-monitoring checks.

  run_check.py <Cxx> [--tier quick|thorough] [--replay FILE]

exit 0  : property held on everything observed (KNOWN-FINDING lines may be printed)
exit 1  : VIOLATION property=<id> replay=<path>
exit 2  : INCONCLUSIVE (a deciding monitor was not reached / watchdog) - never a VIOLATION line
"""
import argparse
import importlib
import json
import logging
import os
import sys
import time

HERE = os.path.dirname(os.path.abspath(__file__))
sys.path.insert(0, HERE)

from vp import core  # noqa: E402


def main():
    ap = argparse.ArgumentParser()
    ap.add_argument("pid")
    ap.add_argument("--tier", default=None)
    ap.add_argument("--replay", default=None)
    a = ap.parse_args()
    tier = a.tier or os.environ.get("VERIF_TIER") or "quick"
    if tier not in ("quick", "thorough"):
        tier = "quick"
    os.environ["VERIF_TIER"] = tier
    seed = int(os.environ.get("VERIF_SEED", "0") or 0)
    os.environ.setdefault("PYTHONHASHSEED", "0")
    core.setup_repo_path()
    logging.disable(logging.CRITICAL)
    import warnings

    warnings.simplefilter("ignore")
    # this process is the zygote of every forked worker: import the library under test (and IPython, which
    # dds imports on its first evaluation) once here; no dds API is ever called in this process itself
    try:
        import dds  # noqa: F401
        import IPython  # noqa: F401
    except ImportError:
        pass
    pid = a.pid.upper()
    mod = importlib.import_module("checks.%s" % pid.lower())
    t0 = time.time()
    if a.replay:
        with open(a.replay) as f:
            payload = json.load(f)
        rep = mod.replay(payload)
        for v in rep.violations:
            print("REPLAY violation: %s (mechanism=%s)" % (v.what, v.mechanism))
        print("REPLAY %s: %d violation(s)" % (pid, len(rep.violations)))
        sys.exit(1 if rep.violations else 0)
    rep = mod.run(tier, seed)
    code = core.finish(rep, tier, seed, t0)
    sys.stdout.flush()
    sys.exit(code)


if __name__ == "__main__":
    main()
