"""
Value alphabet for argument / variable hashing (engine E2) and canonical forms.

canon_doc(v) applies exactly the identifications the documentation makes
(list == tuple, bool == int, pure path / date == its text form); two values with
different canon_doc that get one signature are a collision.
"""
import dataclasses
import datetime
import itertools
import struct
from collections import OrderedDict
from pathlib import PurePosixPath


@dataclasses.dataclass(frozen=True)
class DcA:
    a: object = None
    b: object = None


@dataclasses.dataclass(frozen=True)
class DcB:  # same field names as DcA: a different type with identical structure
    a: object = None
    b: object = None


@dataclasses.dataclass(frozen=True)
class DcC:
    x: object = None


ATOMS_CORE = [
    None,
    True,
    False,
    0,
    1,
    -1,
    2 ** 31 - 1,
    2 ** 31,
    -(2 ** 31),
    -(2 ** 31) - 1,
    2 ** 63,
    2 ** 64,
    10 ** 30,
    0.0,
    -0.0,
    1.0,
    1.5,
    float("inf"),
    float("-inf"),
    float("nan"),
    "",
    "0",
    "1",
    "|",
    "a|b",
    "None",
    "__none__",
    "__DDS_NONE__",
    "[]",
    "\0\0\0\0",
    " ",
    "é",
]

ATOMS_EXTRA = [
    datetime.date(2020, 1, 2),
    datetime.datetime(2020, 1, 2, 3, 4, 5),
    datetime.time(3, 4, 5),
    datetime.timedelta(days=1, seconds=2),
    datetime.timezone.utc,
    "datetime.date(2020, 1, 2)",
    "2020-01-02",
    PurePosixPath("/a/b"),
    PurePosixPath("a"),
    "/a/b",
    "a",
    0x41414141,
    "AAAA",
    "AAAAAAAA",
    struct.unpack("!d", b"AAAAAAAA")[0],
    2 ** 62,
    2.0,
    -(2 ** 63),
    "\0\0\0\0\0\0\0\0",
    "\ud800",
    # canonically equivalent but different texts (precomposed / combining sequence, compatibility forms, case)
    "caf\u00e9",
    "cafe\u0301",
    "\u212b",
    "\u00c5",
    "\uac00",
    "\u1100\u1161",
    "\ufb01",
    "fi",
    "Stra\u00dfe",
    "STRASSE",
    " a",
    "a ",
    "a\n",
    "a\r\n",
]


def atoms(tier):
    return list(ATOMS_CORE) + list(ATOMS_EXTRA)


def _text_forms(v):
    out = {repr(v), str(v)}
    if hasattr(v, "isoformat"):
        try:
            out.add(v.isoformat())
        except Exception:
            pass
    return out


def canon_doc(v, date_form=0):
    """Canonical form under the documented identifications only."""
    if v is None:
        return ("none",)
    if isinstance(v, bool) or isinstance(v, int):
        return ("int", int(v))
    if isinstance(v, float):
        return ("float", struct.pack("!d", v))
    if isinstance(v, str):
        return ("str", v)
    if isinstance(v, PurePosixPath):
        return ("str", str(v))
    if isinstance(
        v,
        (
            datetime.datetime,
            datetime.date,
            datetime.time,
            datetime.timedelta,
            datetime.tzinfo,
        ),
    ):
        return ("str", repr(v) if date_form == 0 else str(v))
    if isinstance(v, (list, tuple)):
        return ("seq", tuple(canon_doc(x, date_form) for x in v))
    if isinstance(v, OrderedDict):
        return (
            "dict",
            tuple(
                sorted(
                    (repr(canon_doc(k, date_form)), canon_doc(x, date_form))
                    for k, x in v.items()
                )
            ),
        )
    if isinstance(v, dict):
        return (
            "dict",
            tuple(
                sorted(
                    (repr(canon_doc(k, date_form)), canon_doc(x, date_form))
                    for k, x in v.items()
                )
            ),
        )
    if dataclasses.is_dataclass(v) and not isinstance(v, type):
        return (
            "dc",
            type(v).__name__,
            tuple(
                (f.name, canon_doc(getattr(v, f.name), date_form))
                for f in dataclasses.fields(v)
            ),
        )
    return ("other", type(v).__name__, repr(v))


def same_doc(v, w):
    return canon_doc(v, 0) == canon_doc(w, 0) or canon_doc(v, 1) == canon_doc(w, 1)


# ---------------------------------------------------------------------------
# known collision mechanisms (open findings of C05): canon_known merges exactly
# the classes each mechanism merges; classify() names the mechanism of a pair.


def _is_empty_like(v):
    return (isinstance(v, (str, list, tuple, dict)) and len(v) == 0) or (
        dataclasses.is_dataclass(v)
        and not isinstance(v, type)
        and len(dataclasses.fields(v)) == 0
    )


def _raw_bytes(v):
    """bytes fed to sha256 for scalars by the implementation's design (ints as 4-byte
    big-endian, floats as 8-byte IEEE, strings as UTF-8), or None."""
    if isinstance(v, bool) or isinstance(v, int):
        if -(2 ** 31) <= int(v) < 2 ** 31:
            return struct.pack("!l", int(v))
        return None
    if isinstance(v, float):
        return struct.pack("!d", v)
    if isinstance(v, str):
        try:
            return v.encode("utf-8")
        except UnicodeError:
            return None
    if isinstance(v, PurePosixPath):
        return str(v).encode("utf-8")
    return None


def classify_pair(v, w):
    """Names the known mechanism by which v and w (different canon_doc) share a
    signature, or None if no listed mechanism explains it."""
    mechs = set()
    _classify(v, w, mechs)
    if len(mechs) == 1:
        return mechs.pop()
    if not mechs:
        return None
    # several mechanisms in different positions of one structure
    if None in mechs:
        return None
    return "+".join(sorted(mechs))


def _as_pairs_list(v):
    """A dict / dataclass seen the way the implementation flattens it, or None."""
    if isinstance(v, dict):
        return [[k, x] for k, x in v.items()]
    return None


def _classify(v, w, out):
    if same_doc(v, w):
        return
    # None vs its sentinel text
    for a, b in ((v, w), (w, v)):
        if a is None and b == "__DDS_NONE__" and isinstance(b, str):
            out.add("none-sentinel-string")
            return
    if _is_empty_like(v) and _is_empty_like(w):
        out.add("empty-container-vs-empty-string")
        return
    rv, rw = _raw_bytes(v), _raw_bytes(w)
    if rv is not None and rw is not None and rv == rw:
        out.add("number-raw-bytes-vs-string")
        return
    # dict vs list of [k, v] pairs
    for a, b in ((v, w), (w, v)):
        pa = _as_pairs_list(a)
        if pa is not None and isinstance(b, (list, tuple)) and len(pa) == len(b):
            if all(isinstance(y, (list, tuple)) and len(y) == 2 for y in b):
                sub = set()
                for (k, x), y in zip(pa, b):
                    _classify(k, y[0], sub)
                    _classify(x, y[1], sub)
                out.add("dict-as-list-of-pairs")
                out.update(sub)
                return
    # a dataclass hashes like the dict {field: [value]} (field hashes are hashed once more, as a
    # one-element list would be)
    for a, b in ((v, w), (w, v)):
        if dataclasses.is_dataclass(a) and not isinstance(a, type) and isinstance(b, dict) and not dataclasses.is_dataclass(b):
            fa = [f.name for f in dataclasses.fields(a)]
            if fa == list(b.keys()) and all(isinstance(x, (list, tuple)) and len(x) == 1 for x in b.values()):
                out.add("dataclass-as-dict-of-singleton-lists")
                for n in fa:
                    _classify(getattr(a, n), b[n][0], out)
                return
    # two dataclasses of different types with the same field names
    if (
        dataclasses.is_dataclass(v)
        and dataclasses.is_dataclass(w)
        and not isinstance(v, type)
        and not isinstance(w, type)
    ):
        fv = [f.name for f in dataclasses.fields(v)]
        fw = [f.name for f in dataclasses.fields(w)]
        if fv == fw:
            if type(v) is not type(w):
                out.add("dataclass-type-not-hashed")
            for n in fv:
                _classify(getattr(v, n), getattr(w, n), out)
            return
    # structural descent
    if isinstance(v, (list, tuple)) and isinstance(w, (list, tuple)) and len(v) == len(w):
        for a, b in zip(v, w):
            _classify(a, b, out)
        return
    if isinstance(v, dict) and isinstance(w, dict) and len(v) == len(w):
        for (k1, x1), (k2, x2) in zip(v.items(), w.items()):
            _classify(k1, k2, out)
            _classify(x1, x2, out)
        return
    out.add(None)


# ---------------------------------------------------------------------------
# enumeration


def containers_of(elems):
    """All container values of width len(elems) built from the given elements."""
    elems = list(elems)
    out = [list(elems), tuple(elems)]
    n = len(elems)
    if n == 0:
        out += [{}, OrderedDict()]
    if n == 1:
        out += [{"k": elems[0]}, {1: elems[0]}, DcC(elems[0])]
    if n == 2:
        out += [
            {"a": elems[0], "b": elems[1]},
            {"b": elems[1], "a": elems[0]},
            OrderedDict([("a", elems[0]), ("b", elems[1])]),
            {1: elems[0], 2: elems[1]},
            DcA(elems[0], elems[1]),
            DcB(elems[0], elems[1]),
        ]
        # a dict whose single item is (elems[0] -> elems[1]) when the key is hashable scalar
        k = elems[0]
        if isinstance(k, (str, int, float)) or k is None:
            try:
                out.append({k: elems[1]})
            except TypeError:
                pass
    if n == 3:
        out += [{"a": elems[0], "b": elems[1], "c": elems[2]}]
    return out


def enumerate_values(level0, depth, width, cap=None, rng=None):
    """Values of nesting <= depth and width <= width over the atoms `level0`.
    Level k+1 = containers over tuples of level<=k elements (sampled when a cap is given)."""
    levels = [list(level0)]
    allv = list(level0)
    for d in range(depth):
        prev_all = list(allv)
        ids_last = set(id(x) for x in levels[-1])
        new = []
        for w in range(0, width + 1):
            total = len(prev_all) ** w
            if cap is not None and total > cap:
                assert rng is not None
                for _ in range(cap):
                    elems = [rng.choice(prev_all) for _ in range(w)]
                    # at least one element from the previous level so depth really grows
                    if d > 0 and w > 0:
                        elems[rng.randrange(w)] = rng.choice(levels[-1])
                    new += containers_of(elems)
            else:
                for elems in itertools.product(prev_all, repeat=w):
                    if d > 0 and w > 0 and not any(id(e) in ids_last for e in elems):
                        continue
                    new += containers_of(elems)
        levels.append(new)
        allv += new
    return allv


def random_deep(rng, atoms_, depth):
    if depth <= 0 or rng.random() < 0.25:
        return rng.choice(atoms_)
    w = rng.randrange(0, 4)
    elems = [random_deep(rng, atoms_, depth - 1) for _ in range(w)]
    return rng.choice(containers_of(elems))


def short(v, n=120):
    r = repr(v)
    return r if len(r) <= n else r[: n - 3] + "..."
