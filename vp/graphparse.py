"""Parser for graphviz `-Tplain` output (what dds writes for dds_export_graph=<file>.plain)."""
import shlex


def parse_plain(text):
    nodes, edges = [], []
    # continuation lines end with a backslash
    text = text.replace("\\\n", "")
    for line in text.splitlines():
        line = line.strip()
        if not line:
            continue
        try:
            t = shlex.split(line)
        except ValueError:
            t = line.split()
        if t[0] == "node":
            # node name x y width height label style shape color fillcolor
            nodes.append({"name": t[1], "label": t[6], "style": t[7], "shape": t[8], "fillcolor": t[10] if len(t) > 10 else None})
        elif t[0] == "edge":
            # edge tail head n x1 y1 .. xn yn [label xl yl] style color
            n = int(t[3])
            rest = t[4 + 2 * n:]
            style = rest[-2] if len(rest) >= 2 else None
            edges.append({"tail": t[1], "head": t[2], "style": style})
    return nodes, edges
