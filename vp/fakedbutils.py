"""
A directory-backed fake of the part of Databricks' dbutils.fs that dds uses
(head / put / cp / rm / mkdirs / ls).  `dbfs:/x`, `/x` and `dbfs:///x` live under <root>/dbfs/x;
`file:/x` and `file:///x` are local files.  Every call is logged.
"""
import os
import shutil


class FakeDbfsError(Exception):
    pass


class FakeFS(object):
    def __init__(self, root):
        self.root = os.path.join(root, "dbfs")
        os.makedirs(self.root, exist_ok=True)
        self.log = []
        self.nops = 0
        self.after_cp_hook = None  # callable(src, dst) run after each completed copy (used to line up concurrent transfers)
        self.fail_at = None  # ordinal of the call that fails once with a transient error (fault injection)

    def _tick(self, what):
        n = self.nops
        self.nops += 1
        if self.fail_at is not None and n == self.fail_at:
            self.fail_at = None
            raise FakeDbfsError("java.io.IOException: transient failure injected before %s" % (what,))

    def _resolve(self, uri):
        u = str(uri)
        if u.startswith("file:"):
            p = u[len("file:"):]
            while p.startswith("//"):
                p = p[1:]
            return p
        if u.startswith("dbfs:"):
            u = u[len("dbfs:"):]
        while u.startswith("//"):
            u = u[1:]
        if not u.startswith("/"):
            u = "/" + u
        return self.root + u

    def rel(self, uri):
        return os.path.relpath(self._resolve(uri), self.root)

    def head(self, path, maxbytes=65536):
        self.log.append(("head", str(path)))
        self._tick(self.log[-1])
        p = self._resolve(path)
        if not os.path.isfile(p):
            raise FakeDbfsError("java.io.FileNotFoundException: %s" % path)
        with open(p, "rb") as f:
            return f.read(maxbytes).decode("utf-8", "replace")

    def put(self, path, contents, overwrite=False):
        self.log.append(("put", str(path), len(contents)))
        self._tick(self.log[-1])
        p = self._resolve(path)
        if os.path.exists(p) and not overwrite:
            raise FakeDbfsError("java.io.IOException: %s already exists" % path)
        os.makedirs(os.path.dirname(p), exist_ok=True)
        tmp = p + ".__tmp__"
        with open(tmp, "wb") as f:
            f.write(contents.encode("utf-8"))
        os.replace(tmp, p)
        return True

    def cp(self, src, dst, recurse=False):
        self.log.append(("cp", str(src), str(dst), recurse))
        self._tick(self.log[-1])
        if getattr(self, "before_cp_hook", None) is not None:
            self.before_cp_hook(str(src), str(dst))
        s, d = self._resolve(src), self._resolve(dst)
        if not os.path.exists(s):
            raise FakeDbfsError("java.io.FileNotFoundException: %s" % src)
        os.makedirs(os.path.dirname(d), exist_ok=True)
        if os.path.isdir(s):
            if not recurse:
                raise FakeDbfsError("java.io.IOException: %s is a directory (recurse=False)" % src)
            if os.path.exists(d):
                shutil.rmtree(d) if os.path.isdir(d) else os.remove(d)
            shutil.copytree(s, d)
        else:
            if os.path.isdir(d):
                raise FakeDbfsError("java.io.IOException: destination %s is a directory" % dst)
            shutil.copyfile(s, d)
        if self.after_cp_hook is not None:
            self.after_cp_hook(str(src), str(dst))
        return True

    def rm(self, path, recurse=False):
        self.log.append(("rm", str(path), recurse))
        self._tick(self.log[-1])
        p = self._resolve(path)
        if not os.path.exists(p):
            return False
        if os.path.isdir(p):
            if not recurse:
                raise FakeDbfsError("java.io.IOException: %s is a directory" % path)
            shutil.rmtree(p)
        else:
            os.remove(p)
        return True

    def mkdirs(self, path):
        self.log.append(("mkdirs", str(path)))
        self._tick(self.log[-1])
        os.makedirs(self._resolve(path), exist_ok=True)
        return True

    def ls(self, path):
        self.log.append(("ls", str(path)))
        self._tick(self.log[-1])
        return sorted(os.listdir(self._resolve(path)))


class FakeDbutils(object):
    def __init__(self, root):
        self.fs = FakeFS(root)
