"""
Execution-log sink imported by generated / check pipeline code.  It lives in the `vp` package,
which is never accepted by dds, so to dds it is an external name: logging does not perturb
signatures and the list below is not a tracked variable.
"""
events = []
raised = {}


def hit(name):
    events.append(name)


def clear():
    del events[:]


def snapshot():
    return list(events)


def make_exc(key, cls, *args):
    """Creates, registers and returns an exception object (identity is checked by the harness)."""
    e = cls(*args)
    raised[key] = e
    return e


def make_exc_named(key, clsname, *args):
    """make_exc with the class given by name (the pipeline module holds no class-valued variable)."""
    cls = {"CustomError": CustomError, "CustomBase": CustomBase}.get(clsname) or getattr(__import__("builtins"), clsname)
    return make_exc(key, cls, *args)


def call0(f):
    """Higher-order use of a function object from untracked code."""
    return f()


def call0_thread(f):
    """Untracked runner that calls the function it is handed in a worker thread and hands its result (or exception) back."""
    import threading

    box = {}

    def runner():
        try:
            box["v"] = f()
        except BaseException as e:
            box["e"] = e

    t = threading.Thread(target=runner)
    t.start()
    t.join()
    if "e" in box:
        raise box["e"]
    return box["v"]


def run_cls(cls, a=0):
    """Untracked runner that is handed a class by name, instantiates it and calls its method."""
    return cls(a).meth()


class CustomError(Exception):
    """An application-defined exception class."""


class FalsyError(Exception):
    """An application-defined exception whose instances are falsy (e.g. an aggregate of zero rejected rows)."""

    def __bool__(self):
        return False


class EmptyAggregate(Exception):
    """An exception that is a container of sub-errors: len() == 0 makes the instance falsy."""

    def __len__(self):
        return 0


class CustomBase(BaseException):
    """An application-defined BaseException subclass."""


def ident(v=None):
    """Identity helper from untracked code (used to put expressions in argument positions)."""
    return v
