"""
Execution-log sink imported by generated / check pipeline code.  It lives in the `vp` package,
which is never accepted by dds, so to dds it is an external name: logging does not perturb
signatures and the list below is not a tracked variable.
"""
events = []
raised = {}


def hit(name):
    events.append(name)


def clear():
    del events[:]


def snapshot():
    return list(events)


def make_exc(key, cls, *args):
    """Creates, registers and returns an exception object (identity is checked by the harness)."""
    e = cls(*args)
    raised[key] = e
    return e


def make_exc_named(key, clsname, *args):
    """make_exc with the class given by name (the pipeline module holds no class-valued variable)."""
    cls = {"CustomError": CustomError, "CustomBase": CustomBase}.get(clsname) or getattr(__import__("builtins"), clsname)
    return make_exc(key, cls, *args)


def call0(f):
    """Higher-order use of a function object from untracked code."""
    return f()


class CustomError(Exception):
    """An application-defined exception class."""


class CustomBase(BaseException):
    """An application-defined BaseException subclass."""


def ident(v=None):
    """Identity helper from untracked code (used to put expressions in argument positions)."""
    return v
