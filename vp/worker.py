"""
Runs one *segment* (= one interpreter process) of a history: writes program files, imports /
reloads them, calls the entry through the real dds (mode "impl") or through the dds-free
reference (mode "ref"), and returns what the monitors observed at the boundary.

Meant to be called in a forked child of a process that has never touched dds state
(core.fork_call(run_segment, seg)).
"""
import importlib
import linecache
import os
import pickle
import sys
import traceback


def _write_files(root, files):
    for rel, text in files.items():
        p = os.path.join(root, rel)
        os.makedirs(os.path.dirname(p), exist_ok=True)
        with open(p, "w", encoding="utf-8") as f:
            f.write(text)


def _pk(v):
    try:
        return pickle.dumps(v)
    except BaseException as e:
        return pickle.dumps(("<unpicklable>", repr(v)))


def _outcome(fn, dds_exc_cls):
    from vp import vlog

    try:
        v = fn()
        return ("ok", _pk(v), repr(v)[:300])
    except BaseException as e:
        ident = None
        for k, ex in vlog.raised.items():
            if ex is e:
                ident = k
        is_dds = isinstance(e, dds_exc_cls)
        code = getattr(e, "error_code", None)
        tb = traceback.format_exc()

        def key_of(x):
            if x is None:
                return None
            for k, ex in vlog.raised.items():
                if ex is x:
                    return k
            return "unregistered:" + type(x).__name__

        chain = {"cause": key_of(e.__cause__), "context": key_of(e.__context__), "suppress_context": bool(e.__suppress_context__)}
        return ("exc", type(e).__name__, str(e)[:400], getattr(code, "name", None) if code is not None else None, is_dds, ident, tb[-1500:], chain)


def make_store(spec):
    from vp import storemodel as SM
    from dds.store import NoOpStore

    kind = spec["kind"]
    if kind == "noop":
        return NoOpStore()
    if kind == "memory":
        from dds.store import MemoryStore

        return MemoryStore()
    return SM.make_store(kind, spec["dir"], lru=spec.get("lru", 3))


def run_segment(seg):
    import logging

    logging.disable(logging.CRITICAL)
    import warnings

    warnings.simplefilter("ignore")
    mode = seg["mode"]
    root = seg["root"]
    from vp import vlog

    vlog.clear()
    vlog.raised.clear()
    if seg.get("chdir"):
        os.chdir(seg["chdir"])
    if root not in sys.path:
        sys.path.insert(0, root)
    out = {"steps": [], "mode": mode}
    cap = None
    all_paths_rec = []
    if mode == "ref":
        from vp import refdds

        dds = refdds.install()
        if seg.get("ref_paths_file") and os.path.exists(seg["ref_paths_file"]):
            with open(seg["ref_paths_file"], "rb") as f:
                dds._paths.update(pickle.load(f))
        dds_exc = dds.DDSException
    else:
        import dds
        from dds.structures import DDSException as dds_exc
        from vp.capstore import CapturingStore
        from dds.structures_utils import FunctionInteractionsUtils as FIU

        if seg.get("options"):
            for k, v in seg["options"].items():
                dds.set_option(k, v)
        if seg.get("store_via_api"):
            # configure through the public API (C16 style) and wrap what it built
            dds.set_store(*seg["store_via_api"]["args"], **seg["store_via_api"]["kwargs"])
            from dds import _api

            cap = CapturingStore(_api._store())
        else:
            cap = CapturingStore(make_store(seg["store"]))
        dds.set_store(cap)
        for pkg in seg.get("accept", []):
            dds.accept_module(pkg)
        # path -> signature map of every evaluation, also for dry runs (internal name; hits are counted)
        orig = FIU.__dict__["all_store_paths"].__func__
        depth = [0]

        def wrapped(cls, fi, *a, **k):
            depth[0] += 1
            try:
                r = orig(cls, fi, *a, **k)
            finally:
                depth[0] -= 1
            if depth[0] == 0:
                all_paths_rec.append([(str(p), str(k)) for p, k in r.items()])
            return r

        FIU.all_store_paths = classmethod(wrapped)
    loaded = {}
    for step in seg["steps"]:
        so = {}
        try:
            if step.get("write"):
                _write_files(root, step["write"])
            for rel in step.get("remove", []):
                try:
                    os.remove(os.path.join(root, rel))
                except OSError:
                    pass
            importlib.invalidate_caches()
            linecache.checkcache()
            how = step.get("how", "import")
            if how in ("import", "reload"):
                for m in step.get("modules", []):
                    if m in sys.modules and how == "reload":
                        loaded[m] = importlib.reload(sys.modules[m])
                    else:
                        loaded[m] = importlib.import_module(m)
                for m in step.get("lazy_modules", []):
                    # modules that only the pipeline itself imports (inside a function body): never imported here
                    if m in sys.modules and how == "reload":
                        importlib.reload(sys.modules[m])
            for (m, name, vsrc) in step.get("mutate", []):
                mod = sys.modules[m] if m in sys.modules else importlib.import_module(m)
                setattr(mod, name, eval(vsrc, {"__builtins__": __builtins__, **_value_ns()}))
            if how == "cells":
                shell = _get_shell()
                for cell in step.get("cells", []):
                    r = shell.run_cell(cell, store_history=True)
                    if r.error_before_exec or r.error_in_exec:
                        raise (r.error_before_exec or r.error_in_exec)
            if step.get("accept_after") and mode == "impl":
                for pkg in step["accept_after"]:
                    dds.accept_module(pkg)
        except BaseException:
            so["setup_error"] = traceback.format_exc()[-1500:]
            out["steps"].append(so)
            continue
        if step.get("side") and mode == "impl":
            # another process works on the same store in the meantime (a brand-new interpreter)
            import json
            import subprocess
            import tempfile

            with tempfile.TemporaryDirectory(prefix="vp_side_") as sd:
                with open(os.path.join(sd, "seg.json"), "w") as f:
                    json.dump(step["side"], f)
                r = subprocess.run([sys.executable, "-m", "vp.segcli", os.path.join(sd, "seg.json"), os.path.join(sd, "out.pkl")], capture_output=True, text=True, timeout=600,
                                   cwd=os.path.dirname(os.path.dirname(os.path.abspath(__file__))))
                if r.returncode == 0 and os.path.exists(os.path.join(sd, "out.pkl")):
                    with open(os.path.join(sd, "out.pkl"), "rb") as f:
                        so["side"] = pickle.load(f)
                else:
                    so["side_error"] = r.stderr[-600:]
        if step.get("store_damage") and mode == "impl":
            # the state a killed writer leaves: blobs renamed into place whose metadata never followed
            from vp import storemodel as SM

            bdir = os.path.join(seg["store"]["dir"], "internal", "blobs")
            if not os.path.isdir(bdir):
                bdir = os.path.join(seg["store"]["dir"], "blobs")
            so["damaged"] = 0
            for fn in sorted(os.listdir(bdir)) if os.path.isdir(bdir) else []:
                if fn.endswith(".meta"):
                    os.remove(os.path.join(bdir, fn))
                    so["damaged"] += 1
            so["tree_before"] = SM.tree_hash(seg["store"]["dir"])
        vlog.clear()
        if cap is not None:
            cap.clear()
        del all_paths_rec[:]
        if mode == "ref":
            del dds.kept_now[:]
        ent = step.get("entry")
        if ent:
            mod = None
            if ent.get("module"):
                mod = sys.modules.get(ent["module"]) or importlib.import_module(ent["module"])
            ns = _value_ns()
            args = eval(ent.get("args_src", "()"), ns)
            kwargs = eval(ent.get("kwargs_src", "{}"), ns)
            opts = dict(ent.get("options") or {})
            if opts.get("dds_export_graph") == "@root":
                opts["dds_export_graph"] = os.path.join(root, "graph_export.dot")
            if mode == "impl" and opts.get("dds_stages") is not None:
                opts["dds_stages"] = [dds.ProcessingStage[x[5:]] if isinstance(x, str) and x.startswith("ENUM:") else x for x in opts["dds_stages"]]
            style = ent["style"]
            if style == "script":
                import runpy

                def call():
                    with open(ent["script_path"], "w", encoding="utf-8") as f:
                        f.write(ent["script_text"])
                    linecache.checkcache()
                    g = runpy.run_path(ent["script_path"], run_name="__main__")
                    return g["__result__"]
            elif style == "cell":
                def call():
                    shell = _get_shell()
                    r = shell.run_cell(ent["code"], store_history=True)
                    if r.error_before_exec or r.error_in_exec:
                        raise (r.error_before_exec or r.error_in_exec)
                    return shell.user_ns["__result__"]
            elif style == "exec":
                # run a snippet in the module's namespace (e.g. several top-level calls); value = `result`
                def call():
                    g = mod.__dict__
                    loc = {}
                    exec(ent["code"], g, loc)
                    return loc.get("result")
            else:
                fobj = getattr(mod, ent["func"])
                if style == "eval":
                    if mode == "impl":
                        call = lambda: dds.eval(fobj, *args, **opts, **kwargs)
                    else:
                        call = lambda: dds.eval(fobj, *args, **kwargs)
                elif style == "call":
                    call = lambda: fobj(*args, **kwargs)
                elif style == "keep":
                    call = lambda: dds.keep(ent["path"], fobj, *args, **kwargs)
                else:
                    raise ValueError(style)
            if ent.get("in_thread"):
                # the evaluation happens in a worker thread of this process (its value / exception is handed back)
                import threading

                inner, box = call, {}

                def runner():
                    try:
                        box["v"] = inner()
                    except BaseException as e:
                        box["e"] = e

                def call():
                    t = threading.Thread(target=runner)
                    t.start()
                    t.join()
                    if "e" in box:
                        raise box["e"]
                    return box["v"]
            so["result"] = _outcome(call, dds_exc)
        so["log"] = vlog.snapshot()
        if mode == "impl":
            so["syncs"] = [list(m.items()) for m in cap.sync_maps()]
            so["sync_begun"] = len(cap.ops("sync_paths_begin"))
            so["stored"] = cap.stored_keys()
            so["has"] = [(a[0], r) for a, r in cap.ops("has_blob")]
            so["fetched"] = [a[0] for a, r in cap.ops("fetch_blob")]
            so["all_paths"] = list(all_paths_rec)
            if seg.get("tree_hash") and seg.get("store", {}).get("dir"):
                from vp import storemodel as SM

                so["tree"] = SM.tree_hash(seg["store"]["dir"])
            try:
                from dds import _api

                so["eval_ctx_clean"] = _api._eval_ctx is None
            except BaseException:
                so["eval_ctx_clean"] = None
        else:
            so["kept"] = [(p, _pk(v)) for p, v in dds.kept_now]
        if step.get("post_loads"):
            vlog.clear()
            res = {}
            for p in step["post_loads"]:
                res[p] = _outcome(lambda: dds.load(p), dds_exc)[:5]
            so["loads"] = res
        out["steps"].append(so)
    if mode == "ref" and seg.get("ref_paths_file"):
        with open(seg["ref_paths_file"], "wb") as f:
            pickle.dump(dict(dds._paths), f)
    return out


_shell = [None]


def _get_shell():
    if _shell[0] is None:
        from IPython.core.interactiveshell import InteractiveShell

        sh = InteractiveShell.instance()
        sh.showtraceback = lambda *a, **k: None
        _shell[0] = sh
    return _shell[0]


def _value_ns():
    import datetime
    import pathlib
    from collections import OrderedDict
    from pathlib import PurePosixPath

    return {"datetime": datetime, "OrderedDict": OrderedDict, "PurePosixPath": PurePosixPath, "pathlib": pathlib}
