"""
Core of the verification framework: verdicts, evidence, known findings, fork pool.

Everything here is stdlib (+ jsonschema when present) and runs under /venv/bin/python.
"""
import hashlib
import json
import os
import pickle
import random
import shutil
import signal
import sys
import tempfile
import time
import traceback

VERIF_DIR = os.path.dirname(os.path.dirname(os.path.abspath(__file__)))
EVIDENCE_DIR = os.path.join(VERIF_DIR, "evidence")
REPLAY_DIR = os.path.join(EVIDENCE_DIR, "replays")
FINDINGS_FILE = os.path.join(VERIF_DIR, "known_findings.json")
SCHEMA_FILE = "/root/.vp/EVIDENCE.schema.json"

NPROC = int(os.environ.get("VERIF_NPROC", "16"))


def repo_dir():
    return os.environ.get("VERIF_REPO", "/repo")


def setup_repo_path():
    """Make `import dds` resolve to the working tree under test (VERIF_REPO, default /repo)."""
    r = repo_dir()
    if r in sys.path:
        sys.path.remove(r)
    sys.path.insert(0, r)
    os.environ["PYTHONPATH"] = r + os.pathsep + VERIF_DIR
    os.environ["PYTHONDONTWRITEBYTECODE"] = "1"
    sys.dont_write_bytecode = True
    os.environ["DDS_PY_VERIF"] = "1"


def h(obj):
    return hashlib.sha256(repr(obj).encode("utf-8", "backslashreplace")).hexdigest()[:16]


class Violation(object):
    def __init__(self, what, case, mechanism=None, features=None):
        self.what = what  # short human text
        self.case = case  # JSON-able replay payload
        self.mechanism = mechanism  # classifier label (or None)
        self.features = features or {}


class Report(object):
    """What a check hands back to run_check."""

    def __init__(self, pid, level="exploration"):
        self.pid = pid
        self.level = level
        self.evaluations = 0
        self.nontrivial = set()  # set of hashes of distinct non-trivial cases
        self.rule = ""
        self.samples = []
        self.violations = []  # list of Violation
        self.inconclusive = []  # reasons
        self.counters = {}
        self.hist = {}
        self.assumptions = []
        self.exhaustive = None
        self.extra = {}

    # -- helpers --
    def count(self, key, n=1):
        self.counters[key] = self.counters.get(key, 0) + n

    def bump(self, dim, key, n=1):
        d = self.hist.setdefault(dim, {})
        k = str(key)
        d[k] = d.get(k, 0) + n

    def nontriv(self, key):
        self.nontrivial.add(key if isinstance(key, str) else h(key))

    def sample(self, s, cap=8):
        if len(self.samples) < cap:
            self.samples.append(s)

    def violate(self, what, case, mechanism=None, features=None):
        self.violations.append(Violation(what, case, mechanism, features))

    def merge(self, other):
        self.evaluations += other.evaluations
        self.nontrivial |= other.nontrivial
        for s in other.samples:
            self.sample(s)
        self.violations += other.violations
        self.inconclusive += other.inconclusive
        for k, v in other.counters.items():
            self.count(k, v)
        for d, m in other.hist.items():
            for k, v in m.items():
                self.bump(d, k, v)


def load_findings():
    if not os.path.exists(FINDINGS_FILE):
        return {"open": [], "fixed": []}
    with open(FINDINGS_FILE) as f:
        return json.load(f)


def _jsonable(x, depth=0):
    if depth > 12:
        return repr(x)
    if isinstance(x, (str, int, float, bool)) or x is None:
        if isinstance(x, float) and (x != x or x in (float("inf"), float("-inf"))):
            return repr(x)
        if isinstance(x, int) and not isinstance(x, bool) and abs(x) > 2 ** 62:
            return repr(x)
        return x
    if isinstance(x, dict):
        return dict((str(k), _jsonable(v, depth + 1)) for k, v in x.items())
    if isinstance(x, (list, tuple, set, frozenset)):
        return [_jsonable(v, depth + 1) for v in x]
    return repr(x)


def finish(report, tier, seed, t0):
    """Classifies violations against the known-findings file, writes evidence, prints the
    verdict lines and returns the exit code."""
    pid = report.pid
    findings = load_findings()
    open_mechs = {}
    for e in findings.get("open", []):
        if e.get("property") == pid:
            open_mechs[e["mechanism"]] = e
    known_hits = {}
    real = []
    for v in report.violations:
        parts = v.mechanism.split("+") if v.mechanism else []
        if parts and all(m in open_mechs for m in parts):
            # a compound label names several listed mechanisms acting in different
            # positions of one case: known only if every component is listed
            for m in parts:
                known_hits.setdefault(m, []).append(v)
        else:
            real.append(v)
    os.makedirs(REPLAY_DIR, exist_ok=True)
    replay_paths = []
    for i, v in enumerate(real[:20]):
        p = os.path.join(REPLAY_DIR, "%s_%s_%d.json" % (pid, tier, i))
        with open(p, "w") as f:
            json.dump(
                _jsonable(
                    {
                        "property": pid,
                        "what": v.what,
                        "mechanism": v.mechanism,
                        "features": v.features,
                        "case": v.case,
                        "seed": seed,
                        "tier": tier,
                    }
                ),
                f,
                indent=1,
            )
        replay_paths.append(p)
    nontriv = len(report.nontrivial)
    status = "held"
    if real:
        status = "violated"
    elif report.inconclusive or report.evaluations == 0 or nontriv < 2:
        status = "inconclusive"
    cov = {
        "evaluations": int(report.evaluations),
        "distinct_nontrivial": int(nontriv),
        "rule": report.rule,
        "samples": _jsonable(report.samples) or ["<none>"],
        "counters": _jsonable(report.counters),
        "histograms": _jsonable(report.hist),
        "known_findings_observed": dict(
            (m, len(vs)) for m, vs in sorted(known_hits.items())
        ),
        "status": status,
    }
    if report.exhaustive is not None:
        cov["exhaustive"] = bool(report.exhaustive)
    if report.level == "other":
        cov["explanation"] = report.rule
    cov.update(_jsonable(report.extra))
    ev = {
        "property_id": pid,
        "tier": tier,
        "seed": int(seed),
        "level": report.level,
        "coverage": cov,
        "assumptions": list(report.assumptions),
        "wall_s": round(time.time() - t0, 3),
        "violations": len(real),
    }
    os.makedirs(EVIDENCE_DIR, exist_ok=True)
    evp = os.path.join(EVIDENCE_DIR, pid + ".json")
    try:
        import jsonschema

        if os.path.exists(SCHEMA_FILE) and status != "inconclusive":
            with open(SCHEMA_FILE) as f:
                jsonschema.validate(ev, json.load(f))
    except ImportError:
        pass
    with open(evp, "w") as f:
        json.dump(ev, f, indent=1, sort_keys=True)
    # verdict lines
    for m, vs in sorted(known_hits.items()):
        e = open_mechs[m]
        print(
            "KNOWN-FINDING: property=%s %s [mechanism=%s, %d occurrence(s) this run, e.g. %s]"
            % (pid, e["what"], m, len(vs), vs[0].what[:160])
        )
    print(
        "%s %s tier=%s seed=%s evaluations=%d distinct_nontrivial=%d wall=%.1fs counters=%s"
        % (
            pid,
            status.upper(),
            tier,
            seed,
            report.evaluations,
            nontriv,
            time.time() - t0,
            json.dumps(_jsonable(report.counters), sort_keys=True),
        )
    )
    if status == "violated":
        for v, p in zip(real, replay_paths):
            print("  what: %s (mechanism=%s)" % (v.what[:400], v.mechanism))
        if len(real) > len(replay_paths):
            print("  ... and %d more" % (len(real) - len(replay_paths)))
        print("VIOLATION property=%s replay=%s" % (pid, replay_paths[0]))
        return 1
    if status == "inconclusive":
        print(
            "INCONCLUSIVE property=%s reason=%s"
            % (pid, "; ".join(report.inconclusive) or "too few observations")
        )
        return 2
    return 0


# ---------------------------------------------------------------------------
# fork pool


class JobFailed(object):
    def __init__(self, kind, detail):
        self.kind = kind  # "timeout" | "crash" | "exception"
        self.detail = detail

    def __repr__(self):
        return "JobFailed(%s, ...%s)" % (self.kind, self.detail[-700:])


def fork_call(fn, arg, timeout=120.0, tmpdir=None):
    """Runs fn(arg) in a forked child; returns its (picklable) result or JobFailed."""
    res = fork_map(fn, [arg], nproc=1, timeout=timeout)
    return res[0]


def fork_map(fn, jobs, nproc=None, timeout=120.0, progress=None):
    """Runs fn(job) for each job in a forked child (fresh copy of this process).
    Results are returned in order; a child that dies or times out gives JobFailed."""
    nproc = nproc or NPROC
    jobs = list(jobs)
    results = [None] * len(jobs)
    tdir = tempfile.mkdtemp(prefix="vp_pool_")
    running = {}
    nxt = 0
    done = 0
    try:
        while nxt < len(jobs) or running:
            while nxt < len(jobs) and len(running) < nproc:
                idx = nxt
                nxt += 1
                out = os.path.join(tdir, "r%d" % idx)
                sys.stdout.flush()
                sys.stderr.flush()
                pid = os.fork()
                if pid == 0:
                    code = 0
                    try:
                        try:
                            os.setpgid(0, 0)
                        except OSError:
                            pass
                        try:
                            r = fn(jobs[idx])
                        except BaseException:
                            r = JobFailed("exception", traceback.format_exc())
                        with open(out + ".tmp", "wb") as f:
                            pickle.dump(r, f)
                        os.rename(out + ".tmp", out)
                    except BaseException:
                        code = 3
                        try:
                            traceback.print_exc()
                        except BaseException:
                            pass
                    finally:
                        try:
                            sys.stdout.flush()
                            sys.stderr.flush()
                        except BaseException:
                            pass
                        os._exit(code)
                running[pid] = (idx, time.time(), out)
            # reap
            reaped = False
            for pid in list(running):
                idx, st, out = running[pid]
                try:
                    rp, status = os.waitpid(pid, os.WNOHANG)
                except ChildProcessError:
                    rp, status = pid, 0
                if rp == pid:
                    reaped = True
                    del running[pid]
                    if os.path.exists(out):
                        try:
                            with open(out, "rb") as f:
                                results[idx] = pickle.load(f)
                        except BaseException:
                            results[idx] = JobFailed("crash", traceback.format_exc())
                        os.remove(out)
                    else:
                        results[idx] = JobFailed("crash", "status=%r no result" % status)
                    done += 1
                    if progress:
                        progress(done, len(jobs))
                elif time.time() - st > timeout:
                    try:
                        os.killpg(pid, signal.SIGKILL)
                    except OSError:
                        try:
                            os.kill(pid, signal.SIGKILL)
                        except OSError:
                            pass
                    os.waitpid(pid, 0)
                    del running[pid]
                    results[idx] = JobFailed("timeout", "after %.0fs" % timeout)
                    done += 1
                    reaped = True
            if not reaped:
                time.sleep(0.002)
    finally:
        for pid in running:
            try:
                os.killpg(pid, signal.SIGKILL)
            except OSError:
                pass
        shutil.rmtree(tdir, ignore_errors=True)
    return results


class Scratch(object):
    """A scratch directory outside /repo and /verif, removed on exit."""

    def __init__(self, prefix="vp_"):
        self.prefix = prefix
        self.path = None

    def __enter__(self):
        base = os.environ.get("VERIF_SCRATCH") or tempfile.gettempdir()
        self.path = tempfile.mkdtemp(prefix=self.prefix, dir=base)
        return self.path

    def __exit__(self, *a):
        shutil.rmtree(self.path, ignore_errors=True)
        # companion directory on another file system (see other_filesystem_dir), if one was made for this scratch
        shutil.rmtree(os.path.join("/dev/shm", "vp_fs_" + os.path.basename(self.path)), ignore_errors=True)
        return False


def other_filesystem_dir(scratch_path):
    """A directory (removed with the scratch directory) on a file system other than the temporary directory's, or None."""
    try:
        if os.path.isdir("/dev/shm") and os.access("/dev/shm", os.W_OK) and os.stat("/dev/shm").st_dev != os.stat(tempfile.gettempdir()).st_dev:
            p = os.path.join("/dev/shm", "vp_fs_" + os.path.basename(scratch_path.rstrip("/")))
            os.makedirs(p, exist_ok=True)
            return p
    except OSError:
        pass
    return None


def tier_and_seed():
    tier = os.environ.get("VERIF_TIER", "quick")
    seed = int(os.environ.get("VERIF_SEED", "0") or 0)
    return tier, seed


def rng_for(seed, *salt):
    return random.Random("%s|%s" % (seed, "|".join(str(s) for s in salt)))


class Budget(object):
    def __init__(self, seconds):
        self.t0 = time.time()
        self.seconds = seconds

    def left(self):
        return self.seconds - (time.time() - self.t0)

    def ok(self):
        return self.left() > 0
