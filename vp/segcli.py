"""CLI wrapper: run one segment in a brand-new interpreter (needed when PYTHONHASHSEED or the
interpreter start-up state is the variable).  usage: python -m vp.segcli seg.json out.pkl"""
import json
import pickle
import sys


def main():
    from vp import core

    core.setup_repo_path()
    from vp.worker import run_segment

    with open(sys.argv[1]) as f:
        seg = json.load(f)
    out = run_segment(seg)
    with open(sys.argv[2], "wb") as f:
        pickle.dump(out, f)


if __name__ == "__main__":
    main()
