"""
Engine E3: a file-system operation shim installed in a forked child that runs real dds code.

Every operation on a path under `root` is a *boundary*: stat / lstat / readlink / mkdir / open /
each half of each write / close / remove / rename / replace / symlink / rmdir / link / listdir.
Modes:
  trace : record the operations
  crash : terminate the process with os._exit(137) immediately *before* boundary number N
          (kill -9 semantics: process state is lost, completed operations are durable; files opened
          for writing are unbuffered so a completed half-write is on disk)
  sched : announce the operation to a controller and block until it lets this process go
"""
import builtins
import io
import os
import struct

_state = {"mode": None, "root": None, "n": 0, "crash_at": None, "trace": [], "ctl_w": None, "go_r": None, "idx": None, "installed": False, "fdpaths": {}}
_orig = {}


def _under(path):
    try:
        if isinstance(path, int):
            return None
        p = os.fspath(path)
        if isinstance(p, bytes):
            p = p.decode("utf-8", "surrogateescape")
        ap = os.path.abspath(p)
    except Exception:
        return None
    root = _state["root"]
    if ap == root or ap.startswith(root + os.sep):
        return os.path.relpath(ap, root)
    return None


def set_fault(n, err=24):
    """The n-th boundary of this process (counted from the installation of the shim) fails once with OSError(err)
    instead of being performed (24 = EMFILE: a transient condition)."""
    _state["fail_at"] = n
    _state["fail_errno"] = err


def gate(kind, path):
    rel = _under(path)
    if rel is None:
        return
    st = _state
    mode = st["mode"]
    if mode is None:
        return
    n = st["n"]
    st["n"] = n + 1
    try:
        _gate(st, mode, n, kind, rel)
    finally:
        pass
    if st.get("fail_at") == n and kind != "start":
        st["fail_at"] = None
        raise OSError(st.get("fail_errno", 24), "injected transient failure before %s" % kind, rel)


def _gate(st, mode, n, kind, rel):
    if mode == "trace":
        st["trace"].append((kind, rel))
    elif mode == "crash":
        st["trace"].append((kind, rel))
        if n == st["crash_at"]:
            try:
                with _orig["open"](st["crash_report"], "w") as f:
                    f.write("%d\t%s\t%s\n" % (n, kind, rel))
            except Exception:
                pass
            os._exit(137)
    elif mode == "sched":
        msg = ("%d\t%s\t%s\n" % (st["idx"], kind, rel)).encode("utf-8")
        _orig["os.write"](st["ctl_w"], struct.pack("!I", len(msg)) + msg)
        # block until the controller says go
        b = _orig["os.read"](st["go_r"], 1)
        if not b:
            os._exit(99)


class _WProxy(object):
    """Binary file opened for writing under the root.  Like Python's BufferedWriter the data of small writes stays in
    the process (and is lost by a kill) until the buffer overflows, flush() or close(); what then goes to the file
    system is split in two halves, and the halves and the close are boundaries."""

    def __init__(self, raw, path, bufsize=8192):
        self._raw = raw
        self._path = path
        self._closed = False
        self._bufsize = bufsize
        self._buf = b""

    def _emit(self, data):
        if len(data) >= 2:
            h = len(data) // 2
            gate("write-half1", self._path)
            self._raw.write(data[:h])
            gate("write-half2", self._path)
            self._raw.write(data[h:])
        elif data:
            gate("write", self._path)
            self._raw.write(data)

    def write(self, data):
        data = bytes(data)
        self._buf += data
        if len(self._buf) > self._bufsize:
            out, self._buf = self._buf, b""
            self._emit(out)
        return len(data)

    def flush(self):
        if self._buf:
            out, self._buf = self._buf, b""
            self._emit(out)
        return None

    def close(self):
        if not self._closed:
            self.flush()
            gate("close", self._path)
            self._closed = True
            self._raw.close()

    @property
    def closed(self):
        return self._closed

    def __enter__(self):
        return self

    def __exit__(self, *a):
        self.close()
        return False

    def __getattr__(self, name):
        return getattr(self._raw, name)


def _open(file, mode="r", buffering=-1, encoding=None, errors=None, newline=None, closefd=True, opener=None):
    if _state["mode"] is not None and not isinstance(file, int) and _under(file) is not None:
        writing = any(c in mode for c in "wax+")
        gate("open-w" if writing else "open-r", file)
        if writing and "b" in mode:
            raw = _orig["open"](file, mode, 0)
            return _WProxy(raw, file, 0 if buffering == 0 else (buffering if buffering > 1 else 8192))
        if writing:
            # text mode: keep it simple - unbuffered binary underneath, line buffering off
            raw = _orig["open"](file, mode.replace("t", "") + "b", 0)
            return _TextWProxy(_WProxy(raw, file), encoding or "utf-8")
    return _orig["open"](file, mode, buffering, encoding, errors, newline, closefd, opener)


class _TextWProxy(object):
    def __init__(self, bin_proxy, encoding):
        self._b = bin_proxy
        self._enc = encoding

    def write(self, s):
        self._b.write(s.encode(self._enc))
        return len(s)

    def flush(self):
        return None

    def close(self):
        self._b.close()

    def __enter__(self):
        return self

    def __exit__(self, *a):
        self.close()
        return False

    def __getattr__(self, name):
        return getattr(self._b, name)


def _wrap1(name, kind, argidx=0):
    fn = _orig[name]

    def w(*a, **k):
        if _state["mode"] is not None and a:
            gate(kind, a[argidx])
        return fn(*a, **k)

    w.__name__ = fn.__name__
    return w


def _wrap2(name, kind):
    fn = _orig[name]

    def w(*a, **k):
        if _state["mode"] is not None and len(a) >= 2:
            # one boundary for the operation, reported on the destination
            gate(kind, a[1] if _under(a[1]) is not None else a[0])
        return fn(*a, **k)

    w.__name__ = fn.__name__
    return w


def _os_open(path, flags, mode=0o777, *, dir_fd=None):
    if _state["mode"] is not None and _under(path) is not None:
        writing = bool(flags & (os.O_WRONLY | os.O_RDWR | os.O_CREAT | os.O_TRUNC | os.O_APPEND))
        gate("os.open-w" if writing else "os.open-r", path)
        fd = _orig["os.open"](path, flags, mode, dir_fd=dir_fd) if dir_fd is not None else _orig["os.open"](path, flags, mode)
        if writing:
            _state["fdpaths"][fd] = os.path.abspath(os.fspath(path))
        return fd
    return _orig["os.open"](path, flags, mode, dir_fd=dir_fd) if dir_fd is not None else _orig["os.open"](path, flags, mode)


def _os_write(fd, data):
    p = _state["fdpaths"].get(fd)
    if p is not None and _state["mode"] is not None:
        data = bytes(data)
        if len(data) >= 2:
            h = len(data) // 2
            gate("write-half1", p)
            _orig["os.write"](fd, data[:h])
            gate("write-half2", p)
            _orig["os.write"](fd, data[h:])
            return len(data)
        gate("write", p)
    return _orig["os.write"](fd, data)


def _os_close(fd):
    p = _state["fdpaths"].pop(fd, None)
    if p is not None and _state["mode"] is not None:
        gate("close", p)
    return _orig["os.close"](fd)


def _os_fdopen(fd, mode="r", buffering=-1, encoding=None, *args, **kwargs):
    p = _state["fdpaths"].get(fd)
    if p is not None and _state["mode"] is not None and "b" in mode and any(c in mode for c in "wa+"):
        raw = _orig["os.fdopen"](fd, mode, 0)
        _state["fdpaths"].pop(fd, None)
        return _WProxy(raw, p)
    return _orig["os.fdopen"](fd, mode, buffering, encoding, *args, **kwargs)


def install(root, mode, crash_at=None, crash_report=None, idx=None, ctl_w=None, go_r=None):
    """Installs the shim in this process (call in a forked child only)."""
    st = _state
    st.update({"root": os.path.abspath(root), "n": 0, "fail_at": None, "crash_at": crash_at, "crash_report": crash_report, "trace": [], "idx": idx, "ctl_w": ctl_w, "go_r": go_r, "fdpaths": {}})
    if not st["installed"]:
        _orig["open"] = builtins.open
        for name in ("stat", "lstat", "readlink", "mkdir", "remove", "unlink", "rmdir", "listdir", "scandir", "truncate", "utime", "chmod", "rename", "replace", "symlink", "link", "open", "write", "read", "close", "fdopen"):
            _orig["os." + name] = getattr(os, name)
        os.stat = _wrap1("os.stat", "stat")
        os.lstat = _wrap1("os.lstat", "lstat")
        os.readlink = _wrap1("os.readlink", "readlink")
        os.mkdir = _wrap1("os.mkdir", "mkdir")
        os.remove = _wrap1("os.remove", "remove")
        os.unlink = _wrap1("os.unlink", "remove")
        os.rmdir = _wrap1("os.rmdir", "rmdir")
        os.listdir = _wrap1("os.listdir", "listdir")
        os.scandir = _wrap1("os.scandir", "listdir")
        os.truncate = _wrap1("os.truncate", "truncate")
        os.utime = _wrap1("os.utime", "utime")
        os.chmod = _wrap1("os.chmod", "chmod")
        os.rename = _wrap2("os.rename", "rename")
        os.replace = _wrap2("os.replace", "rename")
        os.link = _wrap2("os.link", "link")
        os.symlink = _wrap2("os.symlink", "symlink")
        os.open = _os_open
        os.write = _os_write
        os.close = _os_close
        os.fdopen = _os_fdopen
        builtins.open = _open
        io.open = _open
        st["installed"] = True
    st["mode"] = mode


def uninstall():
    _state["mode"] = None


def trace():
    return list(_state["trace"])
