"""
Program families for engine E1: the enumerated dependency-kind x position matrix and the
random DAG generator.
"""
from vp import gen


def base_program(pkg, layout="three", import_form="from_import", entry_data=False, with_ext=True, local=False, setvar=False, ext_inside=False):
    """
    main
     |- x0 = keep /a  A(1, 2)           literal arguments            A -> h1 -> h2, A -> C (data /c)
     |- x1 = B()      data fn /b        sibling, zero-arg
     |- x2 = keep /d  D(x0, 5)          run-time argument + literal
     |- x3 = h1(7)                       plain helper call
    """
    p = gen.new_program(pkg)
    if layout == "one":
        leaf = mid = top = gen.add_module(p, "m0")
    elif layout == "two":
        leaf = mid = gen.add_module(p, "m0")
        top = gen.add_module(p, "m1")
    elif layout == "deep":
        leaf = gen.add_module(p, "sub.deep.leaf")
        mid = gen.add_module(p, "sub.mid")
        top = gen.add_module(p, "top")
    else:
        leaf = gen.add_module(p, "leaf")
        mid = gen.add_module(p, "mid")
        top = gen.add_module(p, "top")
    for a in (leaf, mid, top):
        for b in (leaf, mid, top):
            if a != b:
                p["imports"][a + "->" + b] = import_form
    h2 = gen.add_fn(p, leaf, "h2", params=[("u", None)], const=12)
    C = gen.add_fn(p, leaf, "C", data_path="/c", const=13)
    h1 = gen.add_fn(p, mid, "h1", params=[("t", None)], const=11)
    p["fns"][h1]["stmts"] = [gen.s_call(h2, [gen.param("t")])]
    A = gen.add_fn(p, mid, "A", params=[("a", None), ("b", "0")], const=10)
    p["fns"][A]["stmts"] = [gen.s_call(h1, [gen.lit("3")]), gen.s_call(C, [])]
    B = gen.add_fn(p, mid, "B", data_path="/b", const=20)
    D = gen.add_fn(p, top, "D", params=[("y", None), ("z", "9")], const=30)
    # run-time arguments bound to parameters that have defaults (positional, and by keyword)
    E1 = gen.add_fn(p, top, "E1", params=[("y", "3"), ("z", "9")], const=31)
    E2 = gen.add_fn(p, top, "E2", params=[("a", None), ("z", "9")], const=32)
    # a kept function with a literal argument that itself keeps a function with a run-time argument
    E3i = gen.add_fn(p, top, "E3i", params=[("q", None)], const=34)
    E3 = gen.add_fn(p, top, "E3", params=[("p", None)], const=33)
    p["fns"][E3]["stmts"] = [gen.s_keep("/e3i", E3i, [gen.param("p")])]
    # kept functions whose result is the empty text / empty bytes (an empty file in a file store)
    EMS = gen.add_fn(p, mid, "EMS", const=37, data_path="/empty/text")
    p["fns"][EMS]["ret"] = "empty_str"
    EMB = gen.add_fn(p, mid, "EMB", params=[("a", None)], const=38)
    p["fns"][EMB]["ret"] = "empty_bytes"
    # a kept function whose result is text with \r\n and lone \r line ends
    CRT = gen.add_fn(p, mid, "CRT", const=39, data_path="/text/crlf")
    p["fns"][CRT]["ret"] = "crlf_str"
    # kept functions whose result is a large text / large bytes
    BGS = gen.add_fn(p, mid, "BGS", const=41, data_path="/text/big")
    p["fns"][BGS]["ret"] = "big_str"
    BGB = gen.add_fn(p, mid, "BGB", params=[("a", None)], const=42)
    p["fns"][BGB]["ret"] = "big_bytes"
    # a kept call whose argument is a call written inside the argument list
    hn = gen.add_fn(p, mid, "hn", const=35)
    E4 = gen.add_fn(p, top, "E4", params=[("w", None)], const=36)
    # ... and one with several calls written inside its argument list (positional and keyword)
    hn2 = gen.add_fn(p, mid, "hn2", const=43)
    hn3 = gen.add_fn(p, leaf, "hn3", const=46)
    E5 = gen.add_fn(p, top, "E5", params=[("u", None), ("v", None), ("w", None)], const=47)
    main = gen.add_fn(p, top, "main", const=1, data_path="/main" if entry_data else None)
    p["fns"][main]["stmts"] = [
        gen.s_keep("/a", A, [gen.lit("1"), gen.lit("2")]),
        gen.s_call(B, []),
        gen.s_keep("/d", D, [gen.local(0), gen.lit("5")]),
        gen.s_call(h1, [gen.lit("7")]),
        gen.s_keep("/e1", E1, [gen.local(0)]),
        gen.s_keep("/e2", E2, [gen.lit("1"), gen.local(1, kw="z")]),
        gen.s_keep("/e3", E3, [gen.lit("4")]),
        gen.s_keep("/e4", E4, [gen.callarg(hn)]),
        gen.s_keep("/e5", E5, [gen.callarg(hn2), gen.callarg(hn3), gen.callarg(hn, kw="w")]),
        gen.s_call(EMS, []),
        gen.s_keep("/empty/bytes", EMB, [gen.lit("1")]),
        gen.s_call(CRT, []),
        gen.s_call(BGS, []),
        gen.s_keep("/bytes/big", BGB, [gen.lit("2")]),
    ]
    p["entry"] = main
    for fid in (h2, C, D):
        p["fns"][fid]["uses_display_methods"] = True
    if setvar:
        gen.add_setvar(p, leaf, [h2, C])
    if local:
        # function-local imports: `import dds` inside the functions that keep, and a top-level module that only
        # the body of h2 imports (so nothing has loaded it when the first analysis runs)
        for fid in (main, E3, A):
            p["fns"][fid]["local_dds"] = True
        gen.add_lazy(p)
        p["fns"][h2]["stmts"].append(gen.s_lazy_call())
    if with_ext:
        p["ext"] = {"pkg": pkg + "_ext", "const": 1, "var": "1", "comment": "c"}
        if ext_inside:
            # the modules are accepted one by one under their dotted names; the non-accepted code lives in the same
            # package, in a module whose name starts with the name of an accepted one, and accepted functions call it
            p["accept_by_module"] = True
            p["ext"]["pkg"] = gen.modname(p, leaf) + "_ext"
            for fid in (A, main, C):
                p["fns"][fid]["calls_ext"] = True
    p["_ids"] = {"h2": h2, "C": C, "h1": h1, "A": A, "B": B, "D": D, "E1": E1, "E2": E2, "E3": E3, "E3i": E3i, "E4": E4, "hn": hn, "EMS": EMS, "EMB": EMB, "CRT": CRT, "BGS": BGS, "BGB": BGB, "main": main, "leaf": leaf, "mid": mid, "top": top}
    return p


POSITIONS = ["A", "h1", "h2", "C", "B", "D", "main", "hn", "E3i", "E1"]


def history_restart(n_versions_seq, style="eval"):
    return [{"v": v, "new_process": True, "style": style} for v in n_versions_seq]


def history_same_process(seq, how, style="eval"):
    out = []
    for i, v in enumerate(seq):
        out.append({"v": v, "new_process": i == 0, "how": how, "style": style})
    return out


def _case(name, versions, descs, history, store, extra=None):
    c = {"name": name, "versions": versions, "history": history, "store": store, "edit_desc": {}}
    for (a, b), d in descs.items():
        c["edit_desc"]["%d->%d" % (a, b)] = d
        rd = dict(d)
        rd["reverted"] = True
        c["edit_desc"]["%d->%d" % (b, a)] = rd
    if extra:
        c.update(extra)
    return c


def matrix_cases(tier, seed, stores=("local",)):
    """Yields single-edit cases: dependency kind D at position P, history v0 -> v1 -> v0 -> v1."""
    rng = gen_rng(seed)
    n = 0
    cases = []

    def emit(name, p0, p1, desc, layouts_hist=None):
        nonlocal n
        for store in stores:
            hists = [("restart", history_restart([0, 1, 0, 1]))]
            if desc["kind"] == "set_var":
                hists.append(("mutate", history_same_process([0, 1, 0, 1], "mutate")))
            hists.append(("reload", history_same_process([0, 1, 0, 1], "reload")))
            for hn, hist in hists:
                if store == "memory" and hn == "restart":
                    continue
                cases.append(_case("%s|%s|%s" % (name, hn, store), [p0, p1], {(0, 1): desc}, hist, store))
        n += 1

    k = 0
    # D1: own body constant at every position; D2: comment-only edit at every position
    for pos in POSITIONS:
        for layout in ("three", "one"):
            p0 = base_program("pm%d" % k, layout=layout)
            k += 1
            p1, d = gen.e_set_const(p0, p0["_ids"][pos])
            d["position"] = pos
            emit("const@%s/%s" % (pos, layout), p0, p1, d)
        p0 = base_program("pm%d" % k)
        k += 1
        p1, d = gen.e_comment(p0, p0["_ids"][pos])
        d["position"] = pos
        emit("comment@%s" % pos, p0, p1, d)
    # D3: tracked variable of each kind, read at each position, in each access form
    for kind in gen.VAR_KINDS:
        for pos in ("A", "h1", "h2", "C", "B", "D", "main"):
            for access, same_module in (("bare", True), ("bare", False), ("modattr", False), ("modattr", True)):
                if tier == "quick" and (hash_i(kind, pos, access, same_module) + seed) % 4 != 0 and not (pos in ("A", "h2") and access == "bare" and same_module):
                    continue
                p0 = base_program("pm%d" % k)
                k += 1
                ids = p0["_ids"]
                fmod = p0["fns"][ids[pos]]["module"]
                vmod = fmod if same_module else (ids["leaf"] if fmod != ids["leaf"] else ids["mid"])
                if not same_module and p0["modules"].index(vmod) > p0["modules"].index(fmod):
                    # the variable's module must be importable before the reader's: only leaf -> mid -> top
                    continue
                # put the variable first in its module
                # some variables are named like Python builtins (legitimate shadowing at module level)
                vname = {"int": "max", "str": "format", "list": "filter"}.get(kind) if (access == "bare" and same_module and pos in ("A", "h2", "B")) else None
                if vname and p0["fns"][ids["main"]]["module"] != vmod:
                    # ... while the entry function (another module, analysed first) calls the builtins of those names
                    p0["fns"][ids["main"]]["uses_builtins"] = True
                vid = gen.add_var(p0, vmod, vname or ("V_" + kind.upper()), kind)
                p0["order"][vmod].remove(("var", vid))
                p0["order"][vmod].insert(0, ("var", vid))
                p0["fns"][ids[pos]]["reads"].append([vid, access])
                p1, d = gen.e_set_var(p0, vid)
                d.update({"position": pos, "access": access, "same_module": same_module})
                emit("var:%s@%s/%s/%s" % (kind, pos, access, "same" if same_module else "other"), p0, p1, d)
    # D4: literal arguments of keeps: positional / keyword / layouts / with run-time sibling argument
    for layout in ("one", "multi", "multi2"):
        for target, ai in (("a", 0), ("a", 1), ("d", 1)):
            for kw in (False, True):
                p0 = base_program("pm%d" % k)
                k += 1
                ids = p0["_ids"]
                main = p0["fns"][ids["main"]]
                si = 0 if target == "a" else 2
                main["stmts"][si]["layout"] = layout
                if kw:
                    pname = p0["fns"][main["stmts"][si]["fn"]]["params"][ai][0]
                    main["stmts"][si]["args"][ai]["kw"] = pname
                    if ai == 0:
                        # keyword arguments must follow positional ones
                        other = main["stmts"][si]["args"][1]
                        other["kw"] = p0["fns"][main["stmts"][si]["fn"]]["params"][1][0]
                p1, d = gen.e_set_lit(p0, ids["main"], si, ai, "77")
                d.update({"position": "main", "target": target, "kw": kw})
                emit("lit:%s[%d]/%s/%s" % (target, ai, layout, "kw" if kw else "pos"), p0, p1, d)
    # D5: default value of a parameter of a kept function (omitted at the call site)
    p0 = base_program("pm%d" % k)
    k += 1
    p1 = gen.clone(p0)
    p1["fns"][p1["_ids"]["D"]]["params"][1][1] = "10"
    p0m = p0["fns"][p0["_ids"]["main"]]
    for q in (p0, p1):
        q["fns"][q["_ids"]["main"]]["stmts"][2]["args"] = [gen.local(0)]
    emit("default@D", p0, p1, {"kind": "set_default", "fn": "D", "site": ["T", "D"], "position": "D"})
    # D5b: a parameter that no caller supplies and whose default is a module variable (the function text never changes)
    for pos in ("h1", "h2", "A", "D", "C"):
        p0 = base_program("pm%d" % k)
        k += 1
        f = p0["fns"][p0["_ids"][pos]]
        vid = gen.add_var(p0, f["module"], "V_DEFAULT", "int")
        p0["order"][f["module"]].remove(("var", vid))
        p0["order"][f["module"]].insert(0, ("var", vid))
        f["default_vars"] = [vid]
        p1, d = gen.e_set_var(p0, vid)
        d.update({"position": pos, "variant": "default_is_module_variable"})
        emit("default_var@%s" % pos, p0, p1, d)
    # D5c: one function kept twice in one evaluation under two paths, each time with a run-time argument (different
    # values) next to a literal / an omitted default that is the same in both calls; then the function is edited
    for shape in ("literal", "default", "keyword"):
        p0 = base_program("pm%d" % k)
        k += 1
        ids = p0["_ids"]
        W = gen.add_fn(p0, ids["mid"], "W2", params=[("a", None), ("b", "7" if shape == "default" else None)], const=44)
        extra = [] if shape == "default" else [gen.lit("5", kw="b" if shape == "keyword" else None)]
        p0["fns"][ids["main"]]["stmts"] += [gen.s_keep("/tw2/a", W, [gen.local(0)] + extra), gen.s_keep("/tw2/b", W, [gen.local(1)] + extra)]
        p1, d = gen.e_set_const(p0, W)
        d.update({"position": "W2", "variant": "same_function_two_keeps_mixed_args:" + shape})
        emit("two_keeps_mixed_args:%s" % shape, p0, p1, d)
    # D5d: a function of the non-accepted package used under an alias; the import is re-pointed to another function of that
    # package (the using function's text does not change)
    for pos in ("h2", "A", "C"):
        p0 = base_program("pm%d" % k)
        k += 1
        p0["fns"][p0["_ids"][pos]]["ext_alias"] = "ext_helper"
        p1 = gen.clone(p0)
        p1["fns"][p1["_ids"][pos]]["ext_alias"] = "ext_helper_two"
        emit("ext_alias_repointed@%s" % pos, p0, p1, {"kind": "repoint_external_alias", "fn": p0["fns"][p0["_ids"][pos]]["name"], "site": ["XA"], "position": pos})
    # D6: import forms for the cross-module references (edit = callee constant two modules away)
    for form in gen.IMPORT_FORMS:
        for layout in ("three", "deep"):
            p0 = base_program("pm%d" % k, layout=layout, import_form=form)
            k += 1
            for pos in ("h2", "C"):
                p1, d = gen.e_set_const(p0, p0["_ids"][pos])
                d.update({"position": pos, "import_form": form, "layout": layout})
                emit("import:%s/%s@%s" % (form, layout, pos), p0, p1, d)
    # D7: higher-order reference, lambda, nested def, class/method
    for variant in ("ref", "ref_kw", "lambda_call", "nested_def", "nested_def_var", "nested_def_helper", "nested_def_helper:default", "nested_def_helper:lambda_default", "nested_def_var:default", "nested_def_var:lambda_default", "nested_def_var:shadow", "method_const", "method_var", "method_callee", "method_const:prop", "method_var:prop", "method_callee:prop", "cls_attr", "cls_attr_other_module", "cls_attr_is_module_variable", "cls_attr_is_module_variable:method", "indent"):
        for pos in ("A", "main", "C"):
            p0 = base_program("pm%d" % k)
            k += 1
            ids = p0["_ids"]
            f = p0["fns"][ids[pos]]
            mod = f["module"]
            if variant in ("ref", "ref_kw"):
                tgt = gen.add_fn(p0, mod, "hof_target", const=40)
                p0["order"][mod].remove(("fn", tgt))
                p0["order"][mod].insert(0, ("fn", tgt))
                f["stmts"].append(gen.s_ref(tgt, kw=variant == "ref_kw"))
                p1, d = gen.e_set_const(p0, tgt)
            elif variant == "lambda_keep":
                if pos == "C":
                    continue
                f["stmts"].append(gen.s_lambda_keep("/lam", 50))
                p1 = gen.clone(p0)
                p1["fns"][ids[pos]]["stmts"][-1]["const"] = 51
                d = {"kind": "set_const", "fn": f["name"], "site": ["T", f["name"]]}
            elif variant == "lambda_call":
                f["stmts"].append(gen.s_lambda_call(50))
                p1 = gen.clone(p0)
                p1["fns"][ids[pos]]["stmts"][-1]["const"] = 51
                d = {"kind": "set_const", "fn": f["name"], "site": ["T", f["name"]]}
            elif variant.startswith("nested_def_helper"):
                # a helper that only a function defined inside the body calls
                tgt = gen.add_fn(p0, mod, "inner_target", const=45)
                p0["order"][mod].remove(("fn", tgt))
                p0["order"][mod].insert(0, ("fn", tgt))
                f["stmts"].append(gen.s_nested_def(62, None, tgt, form=variant.partition(":")[2] or None))
                p1, d = gen.e_set_const(p0, tgt)
            elif variant == "nested_def" or variant.startswith("nested_def_var"):
                vid = None
                if variant.startswith("nested_def_var"):
                    vid = gen.add_var(p0, mod, "V_NESTED", "int")
                    p0["order"][mod].remove(("var", vid))
                    p0["order"][mod].insert(0, ("var", vid))
                f["stmts"].append(gen.s_nested_def(60, vid, form=variant.partition(":")[2] or None))
                if vid:
                    p1, d = gen.e_set_var(p0, vid)
                else:
                    p1 = gen.clone(p0)
                    p1["fns"][ids[pos]]["stmts"][-1]["const"] = 61
                    d = {"kind": "set_const", "fn": f["name"], "site": ["T", f["name"]]}
            elif variant == "indent":
                f["stmts"].append(gen.s_block(90))
                p1, d = gen.e_toggle_indent(p0, ids[pos], len(f["stmts"]) - 1)
            elif variant.startswith("cls_attr_is_module_variable"):
                # a class-level attribute whose value is a module variable (LEVEL = V): read through the class or by a method
                vid = gen.add_var(p0, mod, "V_LEVEL", "int")
                p0["order"][mod].remove(("var", vid))
                p0["order"][mod].insert(0, ("var", vid))
                cid = gen.add_cls(p0, mod, "Cfg", const=80)
                p0["classes"][cid]["attr_var"] = vid
                p0["order"][mod].remove(("cls", cid))
                p0["order"][mod].insert(1, ("cls", cid))
                f["stmts"].append(gen.s_method(cid, "4") if variant.endswith(":method") else gen.s_clsattr(cid))
                p1, d = gen.e_set_var(p0, vid)
            elif variant in ("cls_attr", "cls_attr_other_module"):
                # a class-level constant read through the class name, without creating an instance
                cmod = mod if variant == "cls_attr" else p0["_ids"]["leaf"]
                if variant == "cls_attr_other_module" and cmod == mod:
                    continue
                cid = gen.add_cls(p0, cmod, "Cfg", const=80, attr=7)
                p0["order"][cmod].remove(("cls", cid))
                p0["order"][cmod].insert(0, ("cls", cid))
                f["stmts"].append(gen.s_clsattr(cid))
                p1, d = gen.e_set_cls_attr(p0, cid)
            else:
                vid = callee = None
                prop = variant.endswith(":prop")  # the method is a property with a setter (two functions of one name in the class)
                variant = variant.partition(":")[0]
                if variant == "method_var":
                    vid = gen.add_var(p0, mod, "V_CLS", "int")
                    p0["order"][mod].remove(("var", vid))
                    p0["order"][mod].insert(0, ("var", vid))
                if variant == "method_callee":
                    callee = gen.add_fn(p0, mod, "cls_callee", const=70)
                    p0["order"][mod].remove(("fn", callee))
                    p0["order"][mod].insert(0, ("fn", callee))
                cid = gen.add_cls(p0, mod, "Kls", const=80, var=vid, calls=callee, prop=prop)
                p0["order"][mod].remove(("cls", cid))
                idx = p0["order"][mod].index(("fn", ids[pos]))
                p0["order"][mod].insert(idx, ("cls", cid))
                f["stmts"].append(gen.s_method(cid, "4"))
                if variant == "method_const":
                    p1 = gen.clone(p0)
                    p1["classes"][cid]["const"] = 81
                    d = {"kind": "set_const", "fn": "Kls", "site": ["T", "Kls"]}
                elif variant == "method_var":
                    p1, d = gen.e_set_var(p0, vid)
                else:
                    p1, d = gen.e_set_const(p0, callee)
            d.update({"position": pos, "variant": variant})
            emit("%s%s@%s" % (variant, ":prop" if variant.startswith("method_") and prop else "", pos), p0, p1, d)
    # D9: function-local imports (of dds, of sibling modules by dotted name, of a module nothing else imports)
    for form in ("from_import", "local_import_full"):
        for what in ("lazy_const", "lazy_var", "A", "E3i", "h2", "C"):
            p0 = base_program("pm%d" % k, import_form=form, local=True)
            k += 1
            if what.startswith("lazy_"):
                p1, d = gen.e_set_lazy(p0, what[5:])
            else:
                p1, d = gen.e_set_const(p0, p0["_ids"][what])
            d.update({"position": what, "import_form": form, "variant": "local_imports"})
            emit("local:%s@%s" % (form, what), p0, p1, d)
    # D10: two variables of the same name in two modules, both read by one function through their modules; the values are
    # swapped, then made equal, then both changed to another equal value
    for pos in ("D", "A"):
        p0 = base_program("pm%d" % k)
        k += 1
        ids = p0["_ids"]
        fmod = p0["fns"][ids[pos]]["module"]
        mods_before = [m for m in (ids["leaf"], ids["mid"]) if p0["modules"].index(m) <= p0["modules"].index(fmod)]
        if len(mods_before) < 2:
            mods_before = [ids["leaf"], fmod]
        va = gen.add_var(p0, mods_before[0], "BATCH", "int", value="1", vid="v_BATCH_a")
        vb = gen.add_var(p0, mods_before[1], "BATCH", "int", value="2", vid="v_BATCH_b")
        for vid in (va, vb):
            vm = p0["vars"][vid]["module"]
            p0["order"][vm].remove(("var", vid))
            p0["order"][vm].insert(0, ("var", vid))
            p0["fns"][ids[pos]]["reads"].append([vid, "modattr"])
        vers = [p0]
        for (x, y) in (("2", "1"), ("3", "3"), ("4", "4"), ("1", "2")):
            q = gen.clone(vers[-1])
            q["vars"][va]["value"], q["vars"][vb]["value"] = x, y
            vers.append(q)
        descs = dict(((i, i + 1), {"kind": "set_var", "var": "BATCH", "var_kind": "int", "site": ["V", "BATCH"], "position": pos, "variant": "same-name-two-modules"}) for i in range(4))
        for store in stores:
            cases.append(_case("samename@%s|restart|%s" % (pos, store), vers, descs, history_restart([0, 1, 2, 3, 4]), store))
            cases.append(_case("samename@%s|reload|%s" % (pos, store), vers, descs, history_same_process([0, 1, 2, 3, 4], "reload"), store))
    # D8: entry styles: data-function entry called directly / through eval / kept
    for style in ("call", "eval"):
        for pos in ("A", "C", "main"):
            p0 = base_program("pm%d" % k, entry_data=True)
            k += 1
            p1, d = gen.e_set_const(p0, p0["_ids"][pos])
            d["position"] = pos
            for store in stores:
                cases.append(_case("entrydata:%s@%s|%s" % (style, pos, store), [p0, p1], {(0, 1): d}, history_restart([0, 1, 0, 1], style=style), store))
    p0 = base_program("pm%d" % k)
    k += 1
    p1, d = gen.e_set_const(p0, p0["_ids"]["h2"])
    d["position"] = "h2"
    for store in stores:
        cases.append(_case("entry:call@h2|%s" % store, [p0, p1], {(0, 1): d}, history_restart([0, 1, 0, 1], style="call"), store))
        cases.append(_case("entry:keep@h2|%s" % store, [p0, p1], {(0, 1): d}, history_restart([0, 1, 0, 1], style="keep"), store))
    return cases


def zero_edit_cases(tier, seed, stores=("local",)):
    """C02: transitions with no edit in any cone: re-evaluation, fresh process, unrelated additions,
    reordering, non-accepted edits, relocation, entry-style switches."""
    cases = []
    k = 0
    for layout, form, *flags in (("three", "from_import"), ("one", "from_import"), ("deep", "rel_from"), ("three", "import_mod_as"), ("two", "from_import_as"), ("three", "from_import", "ext-inside"), ("deep", "from_import", "ext-inside"), ("three", "from_import", "ext-base"), ("two", "from_import_as", "ext-base"), ("three", "from_import", "annotated"), ("one", "from_import", "annotated"), ("three", "from_import", "data-function-defaults"), ("two", "from_import", "data-function-defaults")):
        for entry_data in (False, True):
            p0 = base_program("pz%d" % k, layout=layout, import_form=form, entry_data=entry_data, ext_inside="ext-inside" in flags)
            if "annotated" in flags:
                p0["annotate"] = True
            if "data-function-defaults" in flags:
                # data functions that declare parameters with defaults (they are still called without arguments)
                for nm in ("B", "C", "EMS") + (("main",) if entry_data else ()):
                    p0["fns"][p0["_ids"][nm]]["params"] = [("scale", "3"), ("label", "'x'")]
            k += 1
            ids = p0["_ids"]
            if "ext-base" in flags:
                # an accepted class that derives from a class of the non-accepted package, used by two kept functions
                amod = p0["fns"][ids["A"]]["module"]
                cid = gen.add_cls(p0, amod, "Derived", const=81)
                p0["classes"][cid]["base_ext"] = True
                p0["order"][amod].remove(("cls", cid))
                p0["order"][amod].insert(0, ("cls", cid))
                p0["fns"][ids["A"]]["stmts"].append(gen.s_method(cid, "4"))
            versions = [p0]
            descs = {}
            hist = [{"v": 0, "new_process": True}, {"v": 0, "new_process": False}, {"v": 0, "new_process": True}]
            # unrelated additions before / between / after, in every module
            cur = p0
            for i, m in enumerate(p0["modules"]):
                for pos in (0, len(cur["order"][m]) // 2 + 1, 99):
                    q, d = gen.e_add_extra(cur, m, pos, "u%d_%d" % (i, pos))
                    versions.append(q)
                    descs[(len(versions) - 2, len(versions) - 1)] = d
                    hist.append({"v": len(versions) - 1, "new_process": True})
                    cur = q
            q, d = gen.e_reorder(cur, ids["mid"])
            versions.append(q)
            descs[(len(versions) - 2, len(versions) - 1)] = d
            hist.append({"v": len(versions) - 1, "new_process": True})
            cur = q
            for what in ("const", "var", "comment"):
                q, d = gen.e_edit_ext(cur, what)
                versions.append(q)
                descs[(len(versions) - 2, len(versions) - 1)] = d
                hist.append({"v": len(versions) - 1, "new_process": True})
                cur = q
            if layout in ("three", "deep") and form in ("from_import", "rel_from"):
                # a leaf helper without dependencies moves to another accepted module (imports follow, texts stay)
                mv = gen.add_fn(cur, ids["leaf"], "standalone_helper", const=77)
                cur["fns"][ids["A"]]["stmts"].append(gen.s_call(mv, []))
                versions.append(cur)
                hist.append({"v": len(versions) - 1, "new_process": True})
                q, d = gen.e_move_fn(cur, mv, ids["mid"])
                # in its new module the helper must be defined before its user
                q["order"][ids["mid"]].remove(("fn", mv))
                q["order"][ids["mid"]].insert(0, ("fn", mv))
                versions.append(q)
                descs[(len(versions) - 2, len(versions) - 1)] = d
                hist.append({"v": len(versions) - 1, "new_process": True})
                hist.append({"v": len(versions) - 1, "new_process": False})
                cur = q
            if gen.relocatable(cur):
                q, d = gen.e_relocate(cur, cur["pkg"] + "_moved")
                versions.append(q)
                descs[(len(versions) - 2, len(versions) - 1)] = d
                hist.append({"v": len(versions) - 1, "new_process": True})
                hist.append({"v": len(versions) - 1, "new_process": False})
            # entry-style switches on the last version
            last = len(versions) - 1
            if entry_data:
                hist += [{"v": last, "new_process": True, "style": "call"}, {"v": last, "new_process": False, "style": "eval"}, {"v": last, "new_process": True, "style": "eval"},
                         {"v": last, "new_process": False, "style": "call"}]
            hist.append({"v": 0, "new_process": True})
            for store in stores:
                cases.append(_case("zero-edit:%s/%s%s/%s|%s" % (layout, form, "".join("+" + x for x in flags), "data-entry" if entry_data else "plain-entry", store), versions, descs, hist, store))
    return cases


def hash_i(*a):
    import hashlib

    return int(hashlib.md5(repr(a).encode()).hexdigest()[:8], 16)


def gen_rng(seed):
    import random

    return random.Random("progs|%s" % seed)


# ---------------------------------------------------------------------------
# random DAG programs


def random_program(rng, pkg, nfn=None, with_loads=False):
    p = gen.new_program(pkg)
    nmod = rng.choice([1, 2, 3])
    mods = [gen.add_module(p, "r%d" % i) for i in range(nmod)]
    forms = gen.IMPORT_FORMS
    for a in mods:
        for b in mods:
            if a != b:
                p["imports"][a + "->" + b] = rng.choice(forms)
    nfn = nfn or rng.randrange(3, 11)
    nvar = rng.randrange(0, 5)
    kinds = list(gen.VAR_KINDS)
    vids = []
    for i in range(nvar):
        m = rng.choice(mods)
        vids.append(gen.add_var(p, m, "RV%d" % i, rng.choice(kinds)))
    fids = []
    paths_used = set()
    kept_callees = set()
    npath = [0]

    def new_path():
        npath[0] += 1
        shapes = ["/n%d", "/g/n%d", "/g/h/n%d", "/g2/h/i/n%d"]
        return rng.choice(shapes) % npath[0]

    for i in range(nfn):
        # functions are created leaf-first; function i may reference functions < i living in modules <= its own
        mi = min(nmod - 1, i * nmod // nfn)
        m = mods[mi]
        is_data = rng.random() < 0.3
        nparams = 0 if is_data else rng.choice([0, 0, 1, 2])
        params = []
        for j in range(nparams):
            params.append(("p%d" % j, None if rng.random() < 0.6 or j == 0 else rng.choice(["0", "1", "None", "'d'"])))
        # defaults must trail
        seen_default = False
        params2 = []
        for (n_, d_) in params:
            if seen_default and d_ is None:
                d_ = "2"
            if d_ is not None:
                seen_default = True
            params2.append((n_, d_))
        fid = gen.add_fn(p, m, "rf%d" % i, params=params2, const=100 + i, data_path=new_path() if is_data else None)
        f = p["fns"][fid]
        if rng.random() < 0.3:
            f["ret"] = "str" if rng.random() < 0.75 else "crlf_str"
        for vid in vids:
            vmod = p["vars"][vid]["module"]
            if mods.index(vmod) <= mi and rng.random() < 0.25:
                f["reads"].append([vid, rng.choice(["bare", "bare", "modattr"])])
        # statements
        # a function whose reach contains a keep site is referenced at most once in the whole program, so that
        # every keep site executes at most once per evaluation (supported subset: one call site per path)
        cands = [g for g in fids if mods.index(p["fns"][g]["module"]) <= mi and not (_has_keep_site(p, g) and _referenced(p, g))]
        nst = rng.randrange(0, 4) if cands else 0
        for s in range(nst):
            cands = [g for g in cands if not (_has_keep_site(p, g) and _referenced(p, g))]
            if not cands:
                break
            g = rng.choice(cands)
            gf = p["fns"][g]

            def mk_args(allow_runtime):
                args = []
                for (pn, pd) in gf["params"]:
                    r = rng.random()
                    if pd is not None and r < 0.3:
                        break  # omit the remaining (defaulted) parameters
                    if allow_runtime and r < 0.55 and len(f["stmts"]) > 0:
                        args.append(gen.local(rng.randrange(len(f["stmts"]))))
                    elif allow_runtime and r < 0.65 and f["params"]:
                        args.append(gen.param(rng.choice(f["params"])[0]))
                    elif allow_runtime and r < 0.69 and [h_ for h_ in fids if not p["fns"][h_]["params"] and p["fns"][h_]["data_path"] is None and h_ not in kept_callees and not _has_keep_site(p, h_) and mods.index(p["fns"][h_]["module"]) <= mi]:
                        # a call written inside the argument list
                        args.append(gen.callarg(rng.choice([h_ for h_ in fids if not p["fns"][h_]["params"] and p["fns"][h_]["data_path"] is None and h_ not in kept_callees and not _has_keep_site(p, h_) and mods.index(p["fns"][h_]["module"]) <= mi])))
                    elif allow_runtime and r < 0.72 and [v for v in vids if mods.index(p["vars"][v]["module"]) <= mi]:
                        # a tracked module variable passed as an argument (a run-time expression for dds)
                        args.append(gen.varg(rng.choice([v for v in vids if mods.index(p["vars"][v]["module"]) <= mi])))
                    else:
                        args.append(gen.lit(rng.choice(["0", "1", "2", "'s'", "None", "True", "1.5"])))
                # all-or-nothing on required params
                req = [x for x in gf["params"] if x[1] is None]
                while len(args) < len(req):
                    args.append(gen.lit("0"))
                return args

            if gf["data_path"] is not None:
                f["stmts"].append(gen.s_call(g, []))
                if rng.random() < 0.3:
                    # read the path that was just produced, in one of the syntactic positions
                    f["stmts"].append(gen.s_load(gf["data_path"], rng.choice(gen.LOAD_FORMS)))
            elif g not in kept_callees and rng.random() < 0.5 and not _called_plain(p, g):
                kept_callees.add(g)
                f["stmts"].append(gen.s_keep(new_path(), g, mk_args(True), layout=rng.choice(["one", "one", "multi", "multi2"]), path_style=rng.choice(["lit", "lit", "var", "pathlib"])))
            elif g not in kept_callees:
                f["stmts"].append(gen.s_call(g, mk_args(True)))
        if rng.random() < 0.2:
            f["uses_builtins"] = True
        if rng.random() < 0.15:
            f["uses_display_methods"] = True
        if rng.random() < 0.12:
            f["alias"] = True  # same-module references go through a module-level alias of the function
        if rng.random() < 0.15:
            f["stmts"].append(gen.s_block(300 + i, inside=rng.random() < 0.5))
        if rng.random() < 0.12:
            # a function defined inside the body that calls a plain leaf helper (or nothing)
            lf = [g for g in fids if not p["fns"][g]["params"] and p["fns"][g]["data_path"] is None and not _has_keep_site(p, g) and g not in kept_callees and mods.index(p["fns"][g]["module"]) <= mi]
            f["stmts"].append(gen.s_nested_def(400 + i, None, rng.choice(lf) if lf and rng.random() < 0.7 else None, form=rng.choice([None, None, "default", "lambda_default"])))
        if rng.random() < 0.15:
            # a class whose method is used by this function (optionally reading a variable / calling a leaf function)
            leafs = [g for g in fids if not p["fns"][g]["params"] and p["fns"][g]["data_path"] is None and not _has_keep_site(p, g) and g not in kept_callees and mods.index(p["fns"][g]["module"]) <= mi]
            vv = [v for v in vids if mods.index(p["vars"][v]["module"]) <= mi and p["vars"][v]["module"] == m]
            cid = gen.add_cls(p, m, "RK%d" % i, const=200 + i, var=rng.choice(vv) if vv and rng.random() < 0.5 else None, calls=rng.choice(leafs) if leafs and rng.random() < 0.5 else None,
                              attr=rng.randrange(1, 9) if rng.random() < 0.5 else None)
            # the class must be defined before the function that uses it
            p["order"][m].remove(("cls", cid))
            p["order"][m].insert(p["order"][m].index(("fn", fid)), ("cls", cid))
            if p["classes"][cid]["attr"] is not None and rng.random() < 0.6:
                f["stmts"].append(gen.s_clsattr(cid))
                if rng.random() < 0.5:
                    f["stmts"].append(gen.s_method(cid, rng.choice(["1", "'m'", "None"])))
            else:
                f["stmts"].append(gen.s_method(cid, rng.choice(["1", "'m'", "None"])))
        fids.append(fid)
    # entry: a fresh function calling the last few roots
    m = mods[-1]
    main = gen.add_fn(p, m, "rmain", const=1)
    roots = [g for g in fids if not _referenced(p, g)]
    for g in roots[-4:]:
        gf = p["fns"][g]
        if gf["data_path"] is not None:
            p["fns"][main]["stmts"].append(gen.s_call(g, []))
        elif g in kept_callees:
            continue
        else:
            args = [gen.lit("1") for x in gf["params"] if x[1] is None]
            if rng.random() < 0.5:
                kept_callees.add(g)
                p["fns"][main]["stmts"].append(gen.s_keep(new_path(), g, args))
            else:
                p["fns"][main]["stmts"].append(gen.s_call(g, args))
    p["entry"] = main
    p["ext"] = {"pkg": pkg + "_ext", "const": 1, "var": "1", "comment": "c"}
    if rng.random() < 0.3:
        m0 = rng.choice(mods)
        rd = [g for g in fids + [main] if p["fns"][g]["module"] == m0]
        if rd:
            gen.add_setvar(p, m0, rng.sample(rd, min(len(rd), rng.randrange(1, 3))), frozen=rng.random() < 0.3)
    # function-local imports: `import dds` inside some bodies; a top-level module imported only inside one body
    if rng.random() < 0.35:
        for fid in fids + [main]:
            if rng.random() < 0.5:
                p["fns"][fid]["local_dds"] = True
    if rng.random() < 0.3:
        gen.add_lazy(p, const=rng.randrange(1, 9), var=str(rng.randrange(1, 9)))
        plain = [g for g in fids if p["fns"][g]["data_path"] is None] or [main]
        p["fns"][rng.choice(plain)]["stmts"].append(gen.s_lazy_call())
    return p


def _has_keep_site(p, g):
    for x in gen.reach(p, g):
        for s in p["fns"][x]["stmts"]:
            if s["k"] in ("keep", "lambda_keep"):
                return True
    return False


def _called_plain(p, g):
    for f in p["fns"].values():
        for s in f["stmts"]:
            if s["k"] in ("call", "nested_def") and s.get("fn") == g:
                return True
            if any(a["k"] == "callarg" and a["fn"] == g for a in s.get("args", [])):
                return True
    for c in p.get("classes", {}).values():
        if c.get("calls") == g:
            return True
    return False


def _referenced(p, g):
    for f in p["fns"].values():
        for s in f["stmts"]:
            if s.get("fn") == g:
                return True
            if any(a["k"] == "callarg" and a["fn"] == g for a in s.get("args", [])):
                return True
    for c in p.get("classes", {}).values():
        if c.get("calls") == g:
            return True
    return False


def random_edit(rng, p, tag):
    """One random edit of p (any kind)."""
    r = rng.random()
    fids = gen.reach(p, p["entry"])
    blocks = [(fid, si) for fid in fids for si, st in enumerate(p["fns"][fid]["stmts"]) if st["k"] == "block"]
    if blocks and 0.80 < r <= 0.86:
        return gen.e_toggle_indent(p, *rng.choice(blocks))
    with_attr = sorted(c for c in p.get("classes", {}) if p["classes"][c].get("attr") is not None)
    if with_attr and 0.86 < r <= 0.92:
        return gen.e_set_cls_attr(p, rng.choice(with_attr))
    if p.get("lazy") and r > 0.92:
        return gen.e_set_lazy(p, rng.choice(["const", "var"]))
    if r < 0.3 and p["vars"]:
        return gen.e_set_var(p, rng.choice(sorted(p["vars"])), rng.randrange(1, 3))
    if r < 0.55:
        return gen.e_set_const(p, rng.choice(fids), rng.randrange(1, 9) * 1000)
    if r < 0.65:
        return gen.e_comment(p, rng.choice(fids))
    if r < 0.8:
        lits = [(fid, si, ai) for fid in fids for si, s in enumerate(p["fns"][fid]["stmts"]) for ai, a in enumerate(s.get("args", [])) if a["k"] == "lit"]
        if lits:
            fid, si, ai = rng.choice(lits)
            return gen.e_set_lit(p, fid, si, ai, rng.choice(["41", "42", "'t'", "2.5"]))
    if r < 0.9:
        return gen.e_add_extra(p, rng.choice(p["modules"]), rng.randrange(0, 6), tag)
    return gen.e_edit_ext(p, rng.choice(["const", "var", "comment"]))


def random_case(rng, idx, store, nsteps=None):
    p0 = random_program(rng, "rp%d" % idx)
    if store == "noop" and any(s["k"] == "load" for f in p0["fns"].values() for s in f["stmts"]):
        store = "local"  # the noop store cannot serve paths (its documentation says so): no loads on it
    versions = [p0]
    descs = {}
    hist = [{"v": 0, "new_process": True, "style": "eval"}]
    nsteps = nsteps or rng.randrange(6, 11)
    cur = 0
    for s in range(nsteps):
        r = rng.random()
        if r < 0.5:
            q, d = random_edit(rng, versions[cur], "e%d" % s)
            versions.append(q)
            descs[(cur, len(versions) - 1)] = d
            nxt = len(versions) - 1
        elif r < 0.75 and len(versions) > 1:
            nxt = rng.randrange(len(versions))  # revert / jump to an earlier version
            if (cur, nxt) not in descs and (nxt, cur) not in descs:
                descs[(cur, nxt)] = {"kind": "jump", "site": ["?"]}
        else:
            nxt = cur
        newp = rng.random() < 0.5 or store == "noop"
        how = "import"
        if not newp:
            how = rng.choice(["reload", "mutate"])
        hist.append({"v": nxt, "new_process": newp, "how": how, "style": "eval"})
        cur = nxt
    if store == "memory":
        for i, st in enumerate(hist):
            st["new_process"] = i == 0
            if i > 0 and st["how"] == "import":
                st["how"] = "reload"
    return _case("random%d|%s" % (idx, store), versions, descs, hist, store)


# ---------------------------------------------------------------------------
# C04: path shapes


PATH_SETS = [
    ["/a/b/c", "/ab/c", "/a/bc", "/abc"],
    ["/d/x", "/d/y", "/d/e/z", "/d/e/f/w", "/top"],
    ["/a b/c d", "/é/ü", "/.hidden/x", "/a.b/c.d"],
    ["/s1", "/s2/s3", "/s4/s5/s6", "/s7/s8/s9/s10"],
]


def path_program(pkg, paths, consts=None, skip=(), ret_str=True, aliases=(), style=None):
    p = gen.new_program(pkg)
    m = gen.add_module(p, "pm")
    main = None
    fids = []
    for i, path in enumerate(paths):
        fid = gen.add_fn(p, m, "pf%d" % i, params=[("a", None)], const=(consts or {}).get(i, 100 + i))
        if ret_str and i % 2 == 0:
            p["fns"][fid]["ret"] = "str"
        fids.append(fid)
    main = gen.add_fn(p, m, "pmain", const=1)
    for i, path in enumerate(paths):
        if i in skip:
            continue
        p["fns"][main]["stmts"].append(gen.s_keep(path, fids[i], [gen.lit(str(i))], path_style=style or ["lit", "var", "pathlib"][i % 3]))
    # the same call kept under a second path (same signature, two paths committed by one evaluation)
    for (apath, i) in aliases:
        p["fns"][main]["stmts"].append(gen.s_keep(apath, fids[i], [gen.lit(str(i))]))
    p["entry"] = main
    return p


def path_shape_cases(tier, seed):
    cases = []
    k = 0
    stores = ["memory", "local", "local_lru", "dbfs"]
    for paths in PATH_SETS:
        for store in stores:
            pkg = "pp%d" % k
            k += 1
            v0 = path_program(pkg, paths)
            v1 = path_program(pkg, paths, consts={0: 900, 2: 902})  # re-keep two paths with changed code
            v2 = path_program(pkg, paths, consts={0: 900, 2: 902}, skip=(1, 2))  # two paths no longer kept: they retain their content
            v3 = path_program(pkg, paths, consts={1: 911}, skip=(0,))
            versions = [v0, v1, v2, v3]
            descs = {(0, 1): {"kind": "set_const", "site": ["T"]}, (1, 2): {"kind": "drop_keeps", "site": ["T"]}, (2, 3): {"kind": "set_const+drop", "site": ["T"]}, (3, 0): {"kind": "revert", "site": ["T"]}}
            if store == "memory":
                hist = history_same_process([0, 1, 2, 3, 0], "reload")
            else:
                hist = history_restart([0, 1, 2, 3, 0]) if k % 2 else history_same_process([0, 1, 2, 3, 0], "reload")
            cases.append(_case("pathshape%d|%s" % (PATH_SETS.index(paths), store), versions, descs, hist, store))
    # dds paths whose leading segments happen to be symbolic links on this machine's file system (/lib, /bin, /var/run ...):
    # a dds path is a name inside the store, never a location on the local disk; kept through pathlib.Path, loaded by text
    import os as _os

    local_links = [d for d in ("/lib", "/bin", "/sbin", "/lib64", "/var/run", "/var/lock") if _os.path.islink(d)][:4] or ["/lib", "/bin"]
    lpaths = [d + "/model%d" % i for i, d in enumerate(local_links)]
    for store in stores:
        pkg = "pl%d" % k
        k += 1
        versions = [path_program(pkg, lpaths, style="lit"), path_program(pkg, lpaths, consts={0: 900, 1: 901}, style="pathlib"), path_program(pkg, lpaths, consts={0: 950, 1: 951}, style="lit")]
        descs = {(0, 1): {"kind": "set_const+pathlib_paths", "site": ["T"]}, (1, 2): {"kind": "set_const+literal_paths", "site": ["T"]}, (2, 0): {"kind": "revert", "site": ["T"]}}
        hist = history_same_process([0, 1, 2, 0], "reload") if store == "memory" or k % 2 else history_restart([0, 1, 2, 0])
        cases.append(_case("pathlocallinks|%s" % store, versions, descs, hist, store))
    # data functions whose path is a module variable: only the variable's value changes (function texts and names unchanged)
    for style in ("var", "pathlib"):
        for store in stores:
            pkg = "pv%d" % k
            k += 1
            v0 = base_program(pkg, layout=["three", "one"][k % 2])
            for nm in ("B", "C", "EMS"):
                v0["fns"][v0["_ids"][nm]]["path_style"] = style
                v0["fns"][v0["_ids"][nm]]["path_name"] = "PATH_OF_" + nm
            v1 = gen.clone(v0)
            for nm in ("B", "C"):
                v1["fns"][v1["_ids"][nm]]["data_path"] += "_moved"
            v2, _ = gen.e_set_const(v1, v1["_ids"]["C"])
            descs = {(0, 1): {"kind": "move_data_paths", "site": ["T"]}, (1, 2): {"kind": "set_const", "site": ["T"]}, (2, 0): {"kind": "revert", "site": ["T"]}}
            hist = history_same_process([0, 1, 2, 0, 1], "reload") if store == "memory" or k % 2 else history_restart([0, 1, 2, 0, 1])
            cases.append(_case("pathvars:%s|%s" % (style, store), [v0, v1, v2], descs, hist, store))
    # a kept call inside a branch that a module variable switches off: the path keeps what it served before.  (The
    # versions with the branch off always carry function bodies whose results were never computed: when the result of the
    # unexecuted call already exists in the store dds commits the path to it - static semantics - which is not judged.)
    for store in stores:
        pkg = "pc%d" % k
        k += 1

        def cond_program(flag, consts):
            q = path_program(pkg, ["/cnd/always", "/cnd/sometimes", "/cnd/deep/er"], consts=consts, ret_str=False)
            m = q["modules"][0]
            vid = gen.add_var(q, m, "ENABLED", "bool", value=flag)
            q["order"][m].remove(("var", vid))
            q["order"][m].insert(0, ("var", vid))
            for st in q["fns"][q["entry"]]["stmts"][1:]:
                st["cond"] = vid
            return q

        versions = [cond_program("True", None), cond_program("False", {1: 901, 2: 902}), cond_program("True", {1: 901, 2: 902}), cond_program("False", {0: 900, 1: 903, 2: 904})]
        descs = {(0, 1): {"kind": "branch_off+set_const", "site": ["T"]}, (1, 2): {"kind": "branch_on", "site": ["V"]}, (2, 3): {"kind": "branch_off+set_const_other", "site": ["T"]}, (3, 0): {"kind": "revert", "site": ["T"]}}
        hist = history_same_process([0, 1, 2, 3, 0], "reload") if store == "memory" or k % 2 else history_restart([0, 1, 2, 3, 0])
        cases.append(_case("pathcond|%s" % store, versions, descs, hist, store))
        # ... the same with the enclosing function kept itself (served from the store when an unchanged version is evaluated
        # again), one of the repeated evaluations exporting the dependency graph
        pkg = "pc%d" % k
        k += 1
        kv = []
        for q in [cond_program("True", None), cond_program("False", {1: 901, 2: 902}), cond_program("True", {1: 901, 2: 902}), cond_program("False", {0: 900, 1: 903, 2: 904})]:
            q["fns"][q["entry"]]["data_path"] = "/cnd/report"
            kv.append(q)
        mk = (lambda v, **kw: dict({"v": v, "new_process": True, "style": "eval"}, **kw)) if not (store == "memory" or k % 2) else (lambda v, **kw: dict({"v": v, "new_process": False, "how": "reload", "style": "eval"}, **kw))
        hist = [dict(mk(0), new_process=True), mk(1), mk(1, options={"dds_export_graph": "@root"}), mk(1), mk(2), mk(2, options={"dds_export_graph": "@root"}), mk(3), mk(3, options={"dds_export_graph": "@root"}), mk(3), mk(0)]
        cases.append(_case("pathcond-kept-parent|%s" % store, kv, descs, hist, store))
    # twins: one call kept under its path and under alias paths that appear over time
    for pi, paths in enumerate(PATH_SETS[:2]):
        for store in stores:
            pkg = "pt%d" % k
            k += 1
            al1 = [("/alias/of0", 0)]
            al2 = [("/alias/of0", 0), ("/alias/deeper/of0", 0), ("/alias2", 1)]
            versions = [path_program(pkg, paths), path_program(pkg, paths, aliases=al1), path_program(pkg, paths, consts={0: 900}, aliases=al2), path_program(pkg, paths, consts={0: 900, 1: 901}, aliases=al2)]
            descs = {(0, 1): {"kind": "add_alias", "site": ["T"]}, (1, 2): {"kind": "set_const+add_alias", "site": ["T"]}, (2, 3): {"kind": "set_const", "site": ["T"]}, (3, 0): {"kind": "revert", "site": ["T"]}}
            hist = history_same_process([0, 1, 2, 3, 0], "reload") if store == "memory" or (k + pi) % 2 else history_restart([0, 1, 2, 3, 0])
            cases.append(_case("pathtwins%d|%s" % (pi, store), versions, descs, hist, store))
    return cases


# ---------------------------------------------------------------------------
# C01: where the code lives (a __main__ script, IPython cells)


def location_cases(tier, seed):
    cases = []
    k = 0
    edits = [("const", "A"), ("const", "h2"), ("const", "C"), ("const", "D"), ("var", "A"), ("var", "h2"), ("lit", None), ("comment", "h1")]
    if tier == "quick":
        edits = [e for i, e in enumerate(edits) if (i + seed) % 2 == 0] + [("const", "h2")]
    for location in ("script", "cells"):
        for what, pos in edits:
            p0 = base_program("__main__", layout="one", with_ext=False)
            p0["location"] = location
            k += 1
            ids = p0["_ids"]
            if what == "const":
                p1, d = gen.e_set_const(p0, ids[pos])
            elif what == "comment":
                p1, d = gen.e_comment(p0, ids[pos])
            elif what == "var":
                vid = gen.add_var(p0, "m0", "V_LOC", "int")
                p0["order"]["m0"].remove(("var", vid))
                p0["order"]["m0"].insert(0, ("var", vid))
                p0["fns"][ids[pos]]["reads"].append([vid, "bare"])
                p1, d = gen.e_set_var(p0, vid)
            else:
                p1, d = gen.e_set_lit(p0, ids["main"], 0, 1, "88")
            d["position"] = pos
            d["location"] = location
            same = history_same_process([0, 0, 1, 0, 1], "rerun")
            same[1]["redefine_all"] = True  # every definition run again, unchanged, in later cells / the script run again
            for hn, hist in (("restart", history_restart([0, 1, 0, 1])), ("same", same)):
                c = _case("location:%s/%s@%s|%s|local" % (location, what, pos, hn), [p0, p1], {(0, 1): d}, hist, "local")
                c["location"] = location
                cases.append(c)
    return cases
