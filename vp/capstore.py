"""
CapturingStore: a dds Store that delegates to the store under test and records every call
at the Store API boundary (arguments, answers, sequence numbers).
"""
from collections import OrderedDict

from dds.store import Store


class CapturingStore(Store):
    def __init__(self, inner):
        self.inner = inner
        self.events = []  # (seq, op, args, result)
        self._seq = 0

    def _rec(self, op, args, result):
        self._seq += 1
        self.events.append((self._seq, op, args, result))

    def clear(self):
        self.events = []

    def has_blob(self, key):
        r = self.inner.has_blob(key)
        self._rec("has_blob", (str(key),), r)
        return r

    def fetch_blob(self, key):
        r = self.inner.fetch_blob(key)
        self._rec("fetch_blob", (str(key),), None)
        return r

    def store_blob(self, key, blob, codec=None):
        r = self.inner.store_blob(key, blob, codec)
        self._rec("store_blob", (str(key),), None)
        return r

    def sync_paths(self, paths):
        self._rec("sync_paths_begin", (list((str(p), str(k)) for p, k in paths.items()),), None)
        r = self.inner.sync_paths(paths)
        self._rec("sync_paths", (list((str(p), str(k)) for p, k in paths.items()),), None)
        return r

    def fetch_paths(self, paths):
        r = self.inner.fetch_paths(paths)
        self._rec("fetch_paths", (list(str(p) for p in paths),), list((str(p), str(k)) for p, k in r.items()))
        return r

    def codec_registry(self):
        return self.inner.codec_registry()

    def __repr__(self):
        return "CapturingStore(%r)" % (self.inner,)

    # --- queries ---
    def sync_maps(self):
        return [OrderedDict(a[0]) for (_, op, a, _) in self.events if op == "sync_paths"]

    def last_sync(self):
        m = self.sync_maps()
        return m[-1] if m else None

    def stored_keys(self):
        return [a[0] for (_, op, a, _) in self.events if op == "store_blob"]

    def ops(self, name):
        return [(a, r) for (_, op, a, r) in self.events if op == name]
