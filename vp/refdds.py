"""
The dds-free reference (DESIGN.md 4.2): a stub module installed under the name `dds` in the
reference process before any user module is imported.  keep/eval just call the function,
load returns the value most recently kept at that path in program order.
"""
import functools
import pathlib
import types

_paths = {}  # path -> value, carried across the steps of a history
kept_now = []  # (path, value) in program order for the current step
_in_eval = [0]
order_violations = []


class DDSException(BaseException):
    def __init__(self, message, error_code=None):
        super(DDSException, self).__init__(message)
        self.error_code = error_code


class RefMissingPath(DDSException):
    pass


DDSPath = str


def _norm(path):
    if isinstance(path, pathlib.PurePath):
        path = path.as_posix()
    return "/" + "/".join(s for s in str(path).split("/") if s)


def keep(path, fun, *args, **kwargs):
    v = fun(*args, **kwargs)
    p = _norm(path)
    _paths[p] = v
    kept_now.append((p, v))
    return v


def eval(fun, *args, dds_export_graph=None, dds_extra_debug=None, dds_stages=None, **kwargs):
    return fun(*args, **kwargs)


def load(path):
    p = _norm(path)
    if p not in _paths:
        raise RefMissingPath("reference: path %s was never kept" % p)
    return _paths[p]


def data_function(path):
    def deco(func):
        @functools.wraps(func)
        def wrapper(*args, **kwargs):
            return keep(path, func, *args, **kwargs)

        return wrapper

    return deco


dds_function = data_function


def accept_module(m):
    return None


whitelist_module = accept_module


def set_store(*a, **k):
    return None


def set_option(*a, **k):
    return None


def get_option(*a, **k):
    return None


def reset_option(*a, **k):
    return None


def install():
    """Binds this module as `dds` in sys.modules (dropping the real package if present)."""
    import sys

    for name in list(sys.modules):
        if name == "dds" or name.startswith("dds."):
            del sys.modules[name]
    m = sys.modules[__name__]
    sys.modules["dds"] = m
    return m
