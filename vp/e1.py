"""
Engine E1 driver: runs a *case* (program versions + history + store kind) through the real dds
and through the dds-free reference, segment by segment (one forked process per segment), and
applies the value / memoisation / path oracles to what the monitors observed.
"""
import os
import pickle

from vp import core, gen
from vp.worker import run_segment


def _unpk(b):
    return pickle.loads(b)


def entry_spec(p, style, args_src="()", options=None, keep_path=None):
    f = p["fns"][p["entry"]]
    ent = {"style": style, "module": gen.modname(p, f["module"]), "func": f["name"], "args_src": args_src}
    if style == "keep":
        ent["path"] = keep_path or "/entry_kept"
    if options:
        ent["options"] = options
    return ent


def compile_case(case, root, store_dir, ref_paths_file):
    """-> list of (impl_seg, ref_seg, [indices of history steps])"""
    versions = case["versions"]
    accept = sorted(set(v["pkg"] for v in versions if not v.get("accept_by_module")) | set(m for v in versions for m in gen.lazy_modules(v))
                    | set(gen.modname(v, m) for v in versions if v.get("accept_by_module") for m in v["modules"]))
    segs = []
    cur = None
    prev_v = None
    all_paths = []
    for hi, st in enumerate(case["history"]):
        p = versions[st["v"]]
        if st.get("entry"):
            p = dict(p, entry=st["entry"])
        if cur is None or st.get("new_process", False):
            cur = {"steps": [], "idx": []}
            segs.append(cur)
            prev_v = None
        how = st.get("how", "import")
        step = {}
        if case.get("location") in ("script", "cells"):
            _compile_location_step(case, step, st, p, versions[prev_v] if prev_v is not None else None, root)
            for path in gen.kept_nodes(p):
                if path not in all_paths:
                    all_paths.append(path)
            step["post_loads"] = list(all_paths)
            cur["steps"].append(step)
            cur["idx"].append(hi)
            prev_v = st["v"]
            continue
        if prev_v is None:
            step["write"] = gen.render(p)
            step["how"] = "import"
            step["modules"] = gen.import_order(p)
            step["lazy_modules"] = gen.lazy_modules(p)
        elif prev_v == st["v"]:
            step["how"] = "none"
        else:
            q = versions[prev_v]
            if st.get("entry"):
                q = dict(q, entry=st["entry"])
            if how == "mutate" and _only_vars_differ(q, p) and _mutate_ok(q, p):
                step["how"] = "none"
                step["mutate"] = [(gen.modname(p, p["vars"][vid]["module"]), p["vars"][vid]["name"], p["vars"][vid]["value"])
                                  for vid in p["vars"] if p["vars"][vid]["value"] != q["vars"][vid]["value"]]
            else:
                step["write"] = gen.render(p)
                step["how"] = "reload" if p["pkg"] == q["pkg"] else "import"
                step["modules"] = gen.import_order(p)
                step["lazy_modules"] = gen.lazy_modules(p)
        step["entry"] = entry_spec(p, st.get("style", "eval"), st.get("args_src") or case.get("entry_args", "()"), st.get("options"), st.get("keep_path"))
        for path in list(gen.kept_nodes(p)) + ([st["keep_path"]] if st.get("keep_path") else []):
            if path not in all_paths:
                all_paths.append(path)
        step["post_loads"] = list(all_paths)
        cur["steps"].append(step)
        cur["idx"].append(hi)
        prev_v = st["v"]
    out = []
    for s in segs:
        base = {"root": root, "accept": accept, "steps": s["steps"]}
        impl = dict(base, mode="impl", store={"kind": case["store"], "dir": store_dir})
        ref = dict(base, mode="ref", ref_paths_file=ref_paths_file)
        out.append((impl, ref, s["idx"]))
    return out


def _cells_of(p):
    """The program as notebook cells: imports + path variables + variables, then one cell per definition."""
    text = gen.render_module(p, p["modules"][0])
    parts = text.split("\n\n\n")
    return [c.strip("\n") + "\n" for c in parts if c.strip()]


def _compile_location_step(case, step, st, p, prev, root):
    import os

    style = st.get("style", "eval")
    f = p["fns"][p["entry"]]
    call = "dds.eval(%s)" % f["name"] if style == "eval" else "%s()" % f["name"]
    if case["location"] == "script":
        text = gen.render_module(p, p["modules"][0]) + "\n\nif __name__ == \"__main__\":\n    __result__ = %s\n" % call
        step["how"] = "none"
        step["entry"] = {"style": "script", "script_path": os.path.join(root, "pipeline_script.py"), "script_text": text}
    else:
        cells = _cells_of(p)
        if prev is not None and not st.get("redefine_all"):
            old = _cells_of(prev)
            cells = [c for c in cells if c not in old]  # only the redefinitions, in later cells
        step["how"] = "cells"
        step["cells"] = cells
        step["entry"] = {"style": "cell", "code": "__result__ = %s\n" % call}


def _mutate_ok(q, p):
    """In-place mutation of a module variable (as the test-suite does) is only equivalent to the edit when
    no other module holds a copy made by `from m import V`."""
    changed = [vid for vid in p["vars"] if p["vars"][vid]["value"] != q["vars"][vid]["value"]]
    for vid in changed:
        vmod = p["vars"][vid]["module"]
        for f in p["fns"].values():
            uses = [a for (v, a) in f["reads"] if v == vid]
            uses += ["bare" for s in f["stmts"] for a in s.get("args", []) if a["k"] == "var" and a["var"] == vid]
            uses += ["bare" for s in f["stmts"] if s["k"] == "nested_def" and s.get("var") == vid]
            if f["module"] != vmod and "bare" in uses:
                return False
        for c in p.get("classes", {}).values():
            if c.get("var") == vid and c["module"] != vmod:
                return False
    return True


def _only_vars_differ(q, p):
    a = dict(q, vars=None)
    b = dict(p, vars=None)
    return a == b and set(q["vars"]) == set(p["vars"])


def run_case(case, timeout=120):
    """Runs the case; returns {"steps": [per history step: impl, ref, fresh], "failed": reason|None}."""
    res = {"steps": [None] * len(case["history"]), "failed": None}
    with core.Scratch("vp_e1_") as td:
        root = os.path.join(td, "code")
        os.makedirs(root)
        store_dir = os.path.join(td, "store")
        os.makedirs(store_dir)
        refp = os.path.join(td, "refpaths.pkl")
        segs = compile_case(case, root, store_dir, refp)
        for impl, ref, idx in segs:
            io = core.fork_call(run_segment, impl, timeout=timeout)
            ro = core.fork_call(run_segment, ref, timeout=timeout)
            if isinstance(io, core.JobFailed) or isinstance(ro, core.JobFailed):
                res["failed"] = "segment worker failed: impl=%r ref=%r" % (io, ro)
                return res
            fresh = None
            if case["store"] not in ("memory", "noop") and case.get("fresh_loads", True):
                last = impl["steps"][-1]
                fseg = dict(impl, steps=[{"how": "none", "post_loads": last["post_loads"]}])
                fo = core.fork_call(run_segment, fseg, timeout=timeout)
                if isinstance(fo, core.JobFailed):
                    res["failed"] = "fresh loader failed: %r" % (fo,)
                    return res
                fresh = fo["steps"][0].get("loads")
            raw = None
            if case["store"] in ("local", "local_lru", "dbfs"):
                raw = {}
                for path in impl["steps"][-1]["post_loads"]:
                    fp_ = os.path.join(store_dir, "dbfs" if case["store"] == "dbfs" else "", "data", path.lstrip("/"))
                    try:
                        with open(fp_, "rb") as f:
                            raw[path] = f.read()
                    except OSError as e:
                        raw[path] = None
            for k, hi in enumerate(idx):
                res["steps"][hi] = {"impl": io["steps"][k], "ref": ro["steps"][k], "fresh": fresh if k == len(idx) - 1 else None,
                                    "raw": raw if k == len(idx) - 1 else None, "seg_first": k == 0}
    return res


# ---------------------------------------------------------------------------
# oracles


def _res_equal(a, b):
    """impl result tuple vs ref result tuple (worker._outcome format)."""
    if a[0] == "ok" and b[0] == "ok":
        va, vb = _unpk(a[1]), _unpk(b[1])
        return va == vb and a[2] == b[2]
    return False


def step_features(case, hi):
    """Features of the transition into history step hi (for mechanism classification)."""
    st = case["history"][hi]
    feats = {"store": case["store"], "style": st.get("style", "eval"), "how": st.get("how", "import"), "new_process": bool(st.get("new_process"))}
    if hi > 0:
        pv = case["history"][hi - 1]["v"]
        if pv != st["v"]:
            feats["edit"] = case.get("edit_desc", {}).get("%d->%d" % (pv, st["v"]))
    return feats


def oracle_values(case, obs, rep, pid="C01", classify=None):
    """C01: every entry result equals the reference; returns index of first divergence or None."""
    for hi, o in enumerate(obs["steps"]):
        if o is None:
            continue
        im, rf = o["impl"], o["ref"]
        if "setup_error" in im or "setup_error" in rf:
            rep.inconclusive.append("setup error: %s" % (im.get("setup_error") or rf.get("setup_error"))[-300:])
            return hi
        a, b = im["result"], rf["result"]
        if case["history"][hi].get("expect") == "reject":
            continue
        rep.count("value_comparisons")
        if b[0] == "ok":
            if not _res_equal(a, b):
                feats = step_features(case, hi)
                if a[0] == "ok":
                    what = "step %d (%s): dds returned %s, plain execution returns %s" % (hi, _st(case, hi), a[2][:150], b[2][:150])
                    kind = "stale-or-wrong-value"
                else:
                    what = "step %d (%s): dds raised %s(%s) [%s], plain execution returns %s" % (hi, _st(case, hi), a[1], a[2][:150], a[3], b[2][:100])
                    kind = "rejected-or-crashed"
                feats["kind"] = kind
                feats["exc"] = a[1] if a[0] == "exc" else None
                feats["exc_msg"] = a[2] if a[0] == "exc" else None
                rep.violate(what, {"case": case, "step": hi}, mechanism=classify(case, hi, feats) if classify else None, features=feats)
                return hi
        else:
            if b[1] in ("NameError", "ImportError", "ModuleNotFoundError", "SyntaxError", "IndentationError", "UnboundLocalError"):
                # the generated program itself is broken (a generator defect, not an observation about dds)
                rep.inconclusive.append("%s: the plain-Python reference raised %s(%s) at step %d" % (case.get("name"), b[1], b[2][:120], hi))
                return hi
            if a[0] == "ok":
                feats = step_features(case, hi)
                feats["kind"] = "value-where-reference-raises"
                rep.violate("step %d (%s): dds returned %s where plain execution raises %s(%s)" % (hi, _st(case, hi), a[2][:100], b[1], b[2][:100]), {"case": case, "step": hi},
                            mechanism=classify(case, hi, feats) if classify else None, features=feats)
                return hi
    return None


def _st(case, hi):
    st = case["history"][hi]
    d = "v%d %s %s%s" % (st["v"], st.get("style", "eval"), st.get("how", "import"), " new-process" if st.get("new_process") else "")
    f = step_features(case, hi).get("edit")
    if f:
        d += " after " + f.get("kind", "?") + ":" + str(f.get("var") or f.get("fn") or f.get("module") or "")
    return d


def sig_map(o):
    """path -> signature observed at Store.sync_paths for a step (union over the evaluations of the step)."""
    m = {}
    for s in o["impl"].get("syncs", []):
        for p, k in s:
            m[p] = k
    return m


def oracle_memo(case, obs, rep, upto=None, classify=None):
    """C02: a kept node whose cone fingerprint was completed before (same store) does not execute
    and keeps its signature."""
    if case["store"] == "noop":
        return
    done = {}  # fp -> sig
    path_fp = {}  # path -> fingerprint of the node that produced what the path currently serves
    for hi, o in enumerate(obs["steps"]):
        if o is None or (upto is not None and hi >= upto):
            break
        st = case["history"][hi]
        if case["store"] == "memory" and o["seg_first"]:
            done = {}
            path_fp = {}
        p = case["versions"][st["v"]]
        if st.get("entry"):
            p = dict(p, entry=st["entry"])
        im = o["impl"]
        if st.get("expect") == "reject":
            continue
        if im.get("result", ("exc",))[0] != "ok":
            break
        nodes = gen.kept_nodes(p)
        if st.get("keep_path"):
            # the entry itself is kept by the top-level call dds.keep(keep_path, entry, *args)
            nodes = dict(nodes)
            nodes[st["keep_path"]] = {"path": st["keep_path"], "fn": p["entry"], "site": None, "args": [], "kind": "keep"}
        eargs = st.get("args_src") or case.get("entry_args", "()")
        fps = dict((path, gen.node_fp(p, n, (), eargs, path_fp)) for path, n in nodes.items())
        sigs = sig_map(o)
        log = im["log"]
        if st.get("style", "eval") == "keep":
            fps["/entry_kept"] = gen.h(["entry_kept", gen.node_fp(p, {"kind": "data", "fn": p["entry"], "site": None, "args": [], "path": "/entry_kept"}, (), case.get("entry_args", "()"))])
        for path, n in nodes.items():
            fp = fps[path]
            fname = p["fns"][n["fn"]]["name"] if n["fn"] else None
            rep.count("memo_obligations")
            if fp in done:
                rep.count("memo_must_be_served")
                executed = fname is not None and fname in log
                sig_changed = path in sigs and sigs[path] != done[fp]
                if executed or sig_changed:
                    feats = step_features(case, hi)
                    feats["node"] = path
                    feats["executed"] = executed
                    feats["sig_changed"] = sig_changed
                    rep.violate(
                        "step %d (%s): kept node %s (%s) %s although nothing in its dependency cone changed" % (hi, _st(case, hi), path, fname, "was re-executed" if executed else "changed signature"),
                        {"case": case, "step": hi, "node": path}, mechanism=classify(case, hi, feats) if classify else None, features=feats)
                    return hi
            else:
                rep.count("memo_may_execute")
        for path in nodes:
            if path in sigs:
                done[fps[path]] = sigs[path]
                path_fp[path] = fps[path]
        if any(f in log for f in [p["fns"][n["fn"]]["name"] for n in nodes.values() if n["fn"]]):
            rep.count("steps_with_recomputation")
        else:
            rep.count("steps_fully_served")
    return None


def oracle_paths(case, obs, rep, upto=None, classify=None):
    """C04: after each evaluation every path kept so far loads (same process, fresh process, raw file) the model value."""
    if case["store"] == "noop":
        return
    model = {}
    for hi, o in enumerate(obs["steps"]):
        if o is None or (upto is not None and hi >= upto):
            break
        if case["store"] == "memory" and o["seg_first"]:
            model = {}
        im, rf = o["impl"], o["ref"]
        if im.get("result", ("exc",))[0] != "ok" or rf.get("result", ("exc",))[0] != "ok":
            break
        for path, pv in rf.get("kept", []):
            model[path] = _unpk(pv)
        for label, loads in (("same process", im.get("loads")), ("fresh process", o.get("fresh"))):
            if loads is None:
                continue
            for path, val in model.items():
                if path not in loads:
                    continue
                r = loads[path]
                rep.count("path_loads_checked")
                good = r[0] == "ok" and _unpk(r[1]) == val
                if not good:
                    feats = step_features(case, hi)
                    feats["path"] = path
                    feats["kept_now"] = path in dict(rf.get("kept", []))
                    rep.violate("step %d (%s): load(%s) in the %s gives %s, the evaluation that kept it returned %r" % (hi, _st(case, hi), path, label, (r[2] if r[0] == "ok" else "%s(%s)" % (r[1], r[2]))[:120], val),
                                {"case": case, "step": hi, "path": path}, mechanism=classify(case, hi, feats) if classify else None, features=feats)
                    return hi
        if o.get("raw") is not None:
            for path, val in model.items():
                if isinstance(val, str) and path in o["raw"]:
                    rep.count("raw_files_checked")
                    if o["raw"][path] != val.encode("utf-8"):
                        feats = step_features(case, hi)
                        rep.violate("step %d: file <data_dir>%s does not hold the text the keep returned" % (hi, path), {"case": case, "step": hi, "path": path},
                                    mechanism=classify(case, hi, feats) if classify else None, features=feats)
                        return hi
    return None
