"""
Engine E4: store factories, a dictionary model of the Store API, tree walks.
"""
import hashlib
import enum
import os
import stat


class Obj(object):
    """A picklable, weak-referenceable value with identity-free equality."""

    def __init__(self, tag):
        self.tag = tag

    def __eq__(self, other):
        return isinstance(other, Obj) and other.tag == self.tag

    def __ne__(self, other):
        return not self.__eq__(other)

    def __hash__(self):
        return hash(("Obj", self.tag))

    def __repr__(self):
        return "Obj(%r)" % (self.tag,)


def key_for(tag):
    return hashlib.sha256(("key:" + str(tag)).encode("utf-8")).hexdigest()


STORE_KINDS = ["memory", "local", "local_lru", "dbfs", "local_linked"]


def make_store(kind, root, reopen=False, lru=3, commit_type=None):
    """A store of the given kind rooted at directory `root` (same dirs when reopened)."""
    from dds.store import MemoryStore, LocalFileStore
    from dds._lru_store import LRUCacheStore

    if kind == "memory":
        return MemoryStore()
    if kind == "local":
        return LocalFileStore(os.path.join(root, "internal"), os.path.join(root, "data"))
    if kind == "local_linked":
        # both configured directories are reached through symbolic links that lead to directories at another depth
        for name, real in (("internal", os.path.join(root, "vol", "deep", "er", "internal_real")), ("data", os.path.join(root, "vol", "data_real"))):
            os.makedirs(real, exist_ok=True)
            if not os.path.lexists(os.path.join(root, name)):
                os.symlink(real, os.path.join(root, name))
        return LocalFileStore(os.path.join(root, "internal"), os.path.join(root, "data"))
    if kind in ("local_api_cache_all", "local_api_cache_true", "local_api_cache_5"):
        # the cache-wrapped store exactly as dds.set_store configures it (cache_objects = -1 "everything", True, 5)
        import dds
        from dds import _api

        dds.set_store("local", internal_dir=os.path.join(root, "internal"), data_dir=os.path.join(root, "data"),
                      cache_objects={"local_api_cache_all": -1, "local_api_cache_true": True, "local_api_cache_5": 5}[kind])
        return _api._store()
    if kind == "local_lru":
        return LRUCacheStore(
            LocalFileStore(os.path.join(root, "internal"), os.path.join(root, "data")), lru
        )
    if kind == "memory_lru":
        return LRUCacheStore(MemoryStore(), lru)
    if kind == "dbfs_links":
        # the DBFS store that commits its paths as redirections only (commit type "links_only")
        from dds.codecs.databricks import CommitType

        return make_store("dbfs", root, reopen=reopen, lru=lru, commit_type=CommitType.LINK_ONLY)
    if kind == "dbfs":
        from dds.codecs.databricks import DBFSStore, DBFSURI, CommitType
        from vp.fakedbutils import FakeDbutils

        ct = commit_type or CommitType.FULL
        return DBFSStore(
            DBFSURI.parse("dbfs:/internal"), DBFSURI.parse("dbfs:/data"), FakeDbutils(root), ct
        )
    raise ValueError(kind)


def segs(path):
    return tuple(s for s in str(path).split("/") if s)


def walk(root):
    """{relative path: (kind, detail)} for everything below root; never follows links."""
    out = {}
    if not os.path.lexists(root):
        return out
    for dirpath, dirnames, filenames in os.walk(root, followlinks=False):
        for n in list(dirnames) + list(filenames):
            p = os.path.join(dirpath, n)
            rel = os.path.relpath(p, root)
            st = os.lstat(p)
            if stat.S_ISLNK(st.st_mode):
                out[rel] = ("link", os.readlink(p))
            elif stat.S_ISDIR(st.st_mode):
                out[rel] = ("dir", None)
            else:
                with open(p, "rb") as f:
                    out[rel] = ("file", hashlib.sha256(f.read()).hexdigest()[:16])
    return out


def tree_hash(root):
    w = walk(root)
    return hashlib.sha256(repr(sorted(w.items())).encode()).hexdigest()[:16]


SEGMENTS = ["a", "b", "ab", "a b", "a.b", ".a", "é", ".", ".."]


def all_paths(maxlen, segments=None):
    import itertools

    segments = segments or SEGMENTS
    out = []
    for n in range(1, maxlen + 1):
        for t in itertools.product(segments, repeat=n):
            out.append("/" + "/".join(t))
    return out


def prefix_free(paths):
    """Filters a list of paths into one where no segment sequence is a prefix of (or equal to) another."""
    out = []
    seen = []
    for p in paths:
        s = segs(p)
        ok = True
        for t in seen:
            k = min(len(s), len(t))
            if s[:k] == t[:k]:
                ok = False
                break
        if ok:
            out.append(p)
            seen.append(s)
    return out


# ---------------------------------------------------------------------------
# result values for codec round trips (looked up by tag from generated / check functions; this
# module is never accepted, so dds treats these helpers as external names)


class Doc(str):
    """A text with state of its own (a subclass of str is an ordinary picklable object, not a text to store verbatim)."""

    def __new__(cls, text, lang="en"):
        o = super().__new__(cls, text)
        o.lang = lang
        return o

    def __reduce__(self):
        return (Doc, (str(self), self.lang))


class Level(str, enum.Enum):
    LOW = "low"
    HIGH = "high"


class Digest(bytes):
    pass


def _frame(kind):
    import pandas as pd

    if kind == 0:
        return pd.DataFrame({"x": [1, 2, 3], "y": ["a", "é", ""]})
    if kind == 2:
        # rows selected from a larger frame keep their labels
        return pd.DataFrame({"x": [1, 2, 3, 4, 5]}).iloc[[1, 3, 4]]
    if kind == 3:
        return pd.DataFrame({"k": ["a", "b"], "v": [1.5, 2.5]}).set_index("k")
    if kind == 4:
        # column and index names as they come out of spreadsheets: spaces, brackets, separators, '='
        return pd.DataFrame({"unit price": [1.5, 2.5], "qty (pcs)": [3, 4], "a;b": ["x", "y"], "k=v": [True, False], "row id": ["r1", "r2"], "tab\tname": [0, 1], "{n}": [7, 8]}).set_index("row id")
    return pd.DataFrame({"x": []})


def result_values():
    vals = [
        ("str_ascii", "plain text"),
        ("str_empty", ""),
        ("str_nonascii", "héllo wörld 中文 \U0001F600"),
        ("str_newlines", "a\r\nb\nc\r"),
        ("str_bom", "\ufeffid,name\n1,a\n"),  # text prepared for spreadsheet tools: starts with a byte-order mark
        ("bytes_plain", b"\x00\x01binary\xff"),
        ("bytes_empty", b""),
        ("bytes_all", bytes(range(256))),
        ("none", None),
        ("int", 12345678901234567890),
        ("float", 1.5),
        ("nested", {"a": [1, (2, 3)], "b": None}),
        ("obj", Obj("custom")),
        ("bool", True),
    ]
    return vals


def result_value(tag):
    if tag == "frame0":
        return _frame(0)
    if tag == "frame1":
        return _frame(1)
    if tag == "frame_labels":
        return _frame(2)
    if tag == "frame_named_index":
        return _frame(3)
    if tag == "frame_odd_names":
        return _frame(4)
    if tag == "str_subclass":
        return Doc("texte", lang="fr")
    if tag == "str_enum":
        return Level.HIGH
    if tag == "bytes_subclass":
        return Digest(b"\x01\x02")
    if tag == "str_big":
        return "é" * (1 << 19)
    if tag == "bytes_big":
        return bytes(range(256)) * 4096
    return dict(result_values())[tag]


def values_equal(a, b):
    try:
        import pandas as pd

        if isinstance(a, pd.DataFrame) or isinstance(b, pd.DataFrame):
            return (isinstance(a, pd.DataFrame) and isinstance(b, pd.DataFrame) and a.equals(b) and [str(c) for c in a.columns] == [str(c) for c in b.columns]
                    and list(a.index.names) == list(b.index.names) and [str(t) for t in a.dtypes] == [str(t) for t in b.dtypes])
    except ImportError:
        pass
    if type(a) is not type(b):
        return False
    if isinstance(a, (list, tuple)):
        return len(a) == len(b) and all(values_equal(x, y) for x, y in zip(a, b))
    if isinstance(a, dict):
        return list(a.keys()) == list(b.keys()) and all(values_equal(a[k], b[k]) for k in a)
    if isinstance(a, Doc):
        return str(a) == str(b) and getattr(a, "lang", None) == getattr(b, "lang", None)
    return a == b


def json_dict_file_codec():
    """A user file codec that stores dict results as JSON text (dicts otherwise fall back to the pickle codec)."""
    import json

    from dds.structures import FileCodecProtocol, ProtocolRef
    from dds.structures_utils import SupportedTypeUtils

    class JsonDictFileCodec(FileCodecProtocol):
        def ref(self):
            return ProtocolRef("user.json_dict")

        def handled_types(self):
            return [SupportedTypeUtils.from_type(dict)]

        def serialize_into(self, blob, loc):
            with open(str(loc), "w", encoding="utf-8") as f:
                json.dump(blob, f)

        def deserialize_from(self, loc):
            with open(str(loc), "r", encoding="utf-8") as f:
                return json.load(f)

    return JsonDictFileCodec()
