"""
Engine E3, scheduler mode: 2-3 real processes run dds actions against one store directory; every
file-system operation boundary (vp/fsshim.py) is announced to this controller and the process
blocks until it is told to go, so exactly one process moves at a time and the interleaving is
*chosen*.  Schedules are explored depth-first by re-execution with preemption bounding.
"""
import os
import pickle
import select
import signal
import struct
import time

from vp import fsshim


def _participant(idx, action, root, ctl_w, go_r, res_path):
    import logging

    logging.disable(logging.CRITICAL)
    import dds
    from vp import vlog

    dds.accept_module("checks")
    vlog.clear()
    fsshim.install(root, "sched", idx=idx, ctl_w=ctl_w, go_r=go_r)
    # wait for the first go (the start is a scheduling point too)
    fsshim.gate("start", os.path.join(root, "."))
    try:
        try:
            v = action(root)
            out = ("ok", v)
        except BaseException as e:
            out = ("exc", type(e).__name__, str(e)[:300])
    finally:
        fsshim.uninstall()
    with open(res_path + ".tmp", "wb") as f:
        pickle.dump({"out": out, "log": vlog.snapshot()}, f)
    os.rename(res_path + ".tmp", res_path)
    msg = ("%d\tdone\t-\n" % idx).encode()
    os.write(ctl_w, struct.pack("!I", len(msg)) + msg)


class Blocked(Exception):
    pass


def execute(actions, root, prefix, workdir, timeout=60.0):
    """Runs the actions under the schedule `prefix` (list of process indices), continuing with the
    non-preemptive default policy.  Returns (choices, ops, results) where choices[i] = (sorted waiting
    list, chosen) and ops = the global operation order [(proc, kind, path)]."""
    n = len(actions)
    ctl_r, ctl_w = os.pipe()
    gos = [os.pipe() for _ in range(n)]
    pids = []
    res_paths = [os.path.join(workdir, "res_%d.pkl" % i) for i in range(n)]
    for rp in res_paths:
        if os.path.exists(rp):
            os.remove(rp)
    for i in range(n):
        pid = os.fork()
        if pid == 0:
            try:
                os.close(ctl_r)
                for j, (r, w) in enumerate(gos):
                    os.close(w)
                    if j != i:
                        os.close(r)
                _participant(i, actions[i], root, ctl_w, gos[i][0], res_paths[i])
            except BaseException:
                import traceback

                traceback.print_exc()
            finally:
                os._exit(0)
        pids.append(pid)
    os.close(ctl_w)
    for r, w in gos:
        os.close(r)
    buf = b""
    waiting = {}  # idx -> (kind, path) announced, blocked
    done = set()
    t0 = time.time()

    def read_msg():
        nonlocal buf
        while True:
            if len(buf) >= 4:
                ln = struct.unpack("!I", buf[:4])[0]
                if len(buf) >= 4 + ln:
                    m = buf[4 : 4 + ln].decode("utf-8").rstrip("\n").split("\t")
                    buf = buf[4 + ln :]
                    return int(m[0]), m[1], m[2]
            left = timeout - (time.time() - t0)
            if left <= 0:
                raise Blocked("watchdog")
            r, _, _ = select.select([ctl_r], [], [], min(left, 5.0))
            if r:
                d = os.read(ctl_r, 65536)
                if not d:
                    raise Blocked("all participants gone")
                buf += d
            else:
                # a participant may have died without announcing
                for i, pid in enumerate(pids):
                    if i not in done and i not in waiting:
                        try:
                            rp, _st = os.waitpid(pid, os.WNOHANG)
                        except ChildProcessError:
                            rp = pid
                        if rp == pid:
                            raise Blocked("participant %d died" % i)

    choices = []
    ops = []
    error = None
    try:
        # all participants first announce their start
        while len(waiting) < n:
            i, kind, path = read_msg()
            waiting[i] = (kind, path)
        last = None
        step = 0
        while len(done) < n:
            W = sorted(waiting)
            if not W:
                raise Blocked("nobody waiting")
            if step < len(prefix) and prefix[step] in waiting:
                c = prefix[step]
            elif step < len(prefix):
                raise Blocked("schedule prefix not replayable at step %d" % step)
            elif last in waiting:
                c = last
            else:
                c = W[0]
            choices.append((W, c))
            kind, path = waiting.pop(c)
            ops.append((c, kind, path))
            os.write(gos[c][1], b"g")
            # wait until c announces its next operation or finishes
            while True:
                i, kind, path = read_msg()
                if kind == "done":
                    done.add(i)
                else:
                    waiting[i] = (kind, path)
                if i == c:
                    break
            last = c
            step += 1
    except Blocked as e:
        error = str(e)
    finally:
        for r, w in gos:
            try:
                os.close(w)
            except OSError:
                pass
        os.close(ctl_r)
        for pid in pids:
            try:
                if error:
                    os.kill(pid, signal.SIGKILL)
                os.waitpid(pid, 0)
            except (OSError, ChildProcessError):
                pass
    results = []
    for rp in res_paths:
        if os.path.exists(rp):
            with open(rp, "rb") as f:
                results.append(pickle.load(f))
        else:
            results.append(None)
    return choices, ops, results, error


def preemptions(choices, upto=None):
    """Number of switches away from a process that was still waiting (runnable)."""
    c = 0
    for i in range(1, len(choices) if upto is None else upto):
        W, ch = choices[i]
        prev = choices[i - 1][1]
        if ch != prev and prev in W:
            c += 1
    return c


def children_of(choices, prefix_len, bound):
    """Schedule prefixes that differ from the executed one first at a position >= prefix_len and stay within the bound."""
    out = []
    for pos in range(prefix_len, len(choices)):
        W, ch = choices[pos]
        base = preemptions(choices, pos) if pos > 0 else 0
        prev = choices[pos - 1][1] if pos > 0 else None
        for alt in W:
            if alt == ch:
                continue
            cost = base + (1 if (prev is not None and prev in W and alt != prev) else 0)
            if cost <= bound:
                out.append([c for (_, c) in choices[:pos]] + [alt])
    return out
