"""Runs E1 cases in parallel (one forked child per case) and merges the per-case reports."""
from vp import core, e1, gen


def _one(arg):
    case, pid, oracles, classify_name = arg
    import importlib

    rep = core.Report(pid)
    rep.evaluations = 1
    classify = None
    if classify_name:
        m, f = classify_name.rsplit(".", 1)
        classify = getattr(importlib.import_module(m), f)
    obs = e1.run_case(case)
    if obs["failed"]:
        rep.inconclusive.append("%s: %s" % (case.get("name"), obs["failed"]))
        return rep
    cut = None
    if "values" in oracles:
        cut = e1.oracle_values(case, obs, rep, pid, classify)
    else:
        # still need to know where the history stops being meaningful (first divergence from the reference)
        tmp = core.Report(pid)
        cut = e1.oracle_values(case, obs, tmp, pid, None)
        rep.inconclusive += tmp.inconclusive
    if "memo" in oracles:
        e1.oracle_memo(case, obs, rep, cut, classify)
    if "paths" in oracles:
        e1.oracle_paths(case, obs, rep, cut, classify)
    # non-trivial: some step served from the store after an edit that changed the reference value
    served = changed = False
    prev = None
    for hi, o in enumerate(obs["steps"]):
        if o is None or "result" not in o["impl"] or "result" not in o["ref"]:
            continue
        if o["impl"]["result"][0] == "ok":
            if o["impl"].get("fetched"):
                served = True
            r = o["ref"]["result"]
            if prev is not None and r[0] == "ok" and r[2] != prev:
                changed = True
            prev = r[2] if r[0] == "ok" else prev
    rep.count("steps", len(obs["steps"]))
    if served:
        rep.count("cases_with_store_hits")
    if changed:
        rep.count("cases_with_value_changing_edit")
    if served and (changed or "memo" in oracles):
        skeleton = gen.h([sorted((f["name"], len(f["stmts"]), len(f["reads"]), f["data_path"] is not None) for f in case["versions"][0]["fns"].values()),
                          [(s["v"], s.get("new_process"), s.get("how"), s.get("style")) for s in case["history"]], case["store"],
                          sorted(case.get("edit_desc", {}).get("0->1", {}).items(), key=str)[:6] if case.get("edit_desc") else None, case.get("name", "").split("|")[0]])
        rep.nontriv(skeleton)
    return rep


def run_cases(cases, pid, oracles, rep, classify_name=None, timeout=600):
    jobs = [(c, pid, oracles, classify_name) for c in cases]
    results = core.fork_map(_one, jobs, timeout=timeout)
    nfail = 0
    for c, r in zip(cases, results):
        if isinstance(r, core.JobFailed):
            nfail += 1
            if nfail <= 3:
                rep.count("case_failures")
                rep.extra.setdefault("case_failures", []).append("%s: %r" % (c.get("name"), r))
            continue
        rep.merge(r)
        rep.bump("case_family", c.get("name", "?").split(":")[0].split("@")[0].split("|")[0])
        rep.bump("store", c["store"])
    if nfail > max(1, len(cases) // 100):
        rep.inconclusive.append("%d of %d case workers failed or timed out" % (nfail, len(cases)))
    return rep
