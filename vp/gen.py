"""
Pipeline DSL (engine E1): programs as data, rendered to real Python packages, with the
ground truth (who references what) needed to compute dependency cones (DESIGN.md 4.1).

A program is a dict (JSON-able, so that replay files carry it):
  pkg      : name of the accepted root package
  modules  : list of module names relative to pkg ("m0", "sub.m1"), import order (leaf first)
  vars     : {vid: {module, name, kind, value}}            value = Python source text
  fns      : {fid: {module, name, params, data_path, path_style, const, reads, stmts, comment, cls}}
  imports  : {"A->B": form}
  extras   : {module: [text blocks of unrelated definitions]} and their position
  entry    : fid
"""
import copy
import hashlib
import json

IMPORT_FORMS = ["from_import", "from_import_as", "import_mod_as", "from_pkg_import_mod", "import_full", "rel_from", "rel_mod", "alias_assign", "local_import_full"]
BARE_FORMS = ["from_import", "from_import_as", "rel_from", "alias_assign", "local_from_import"]
# function-local import forms that bind a new local name (not part of IMPORT_FORMS: the unchanged library does not
# resolve them, see known finding C01 function-local-aliased-import-not-tracked; used by dedicated probes only)
ALIASED_LOCAL_FORMS = ["local_from_import", "local_import_as", "local_from_pkg_import_mod"]

VAR_KINDS = {
    "int": ["3", "4", "70000"],
    "float": ["1.5", "2.25", "-0.0"],
    "str": ["'s1'", "'s2'", "''"],
    "bool": ["True", "False", "True"],
    "none": ["None", "0", "None"],
    "list": ["[1, 2]", "[1, 3]", "[]"],
    "tuple": ["(1, 2)", "(1, 3)", "()"],
    "tuplef": ["(1, 2)", "(1.0, 2.0)", "(1, 2.0)"],  # equal under ==, different element types (bool = int is a documented identification: no bools here)
    "dict": ["{'k': 1, 'j': 2}", "{'j': 2, 'k': 1}", "{'k': 2}"],
    "relpath": ["pathlib.Path('data/raw.csv')", "pathlib.Path('data/other.csv')", "pathlib.Path('x')"],
    "path": ["PurePosixPath('/x/y')", "PurePosixPath('/x/z')", "PurePosixPath('a')"],
    "date": ["datetime.date(2020, 1, 2)", "datetime.date(2021, 1, 2)", "datetime.date(1999, 9, 9)"],
    "nested": ["{'a': [1, (2, 3)]}", "{'a': [1, (2, 4)]}", "{'a': []}"],
}


def h(x):
    return hashlib.sha256(json.dumps(x, sort_keys=True, default=repr).encode()).hexdigest()[:16]


def new_program(pkg):
    return {"pkg": pkg, "modules": [], "vars": {}, "fns": {}, "classes": {}, "imports": {}, "extras": {}, "entry": None, "order": {}, "ext": None}


def add_module(p, name):
    if name not in p["modules"]:
        p["modules"].append(name)
        p["order"][name] = []
    return name


def add_var(p, module, name, kind, value=None, vid=None):
    vid = vid or "v_" + name
    p["vars"][vid] = {"module": module, "name": name, "kind": kind, "value": value if value is not None else VAR_KINDS[kind][0]}
    p["order"][module].append(("var", vid))
    return vid


def add_fn(p, module, name, params=(), data_path=None, const=1, path_style="lit"):
    fid = "f_" + name
    p["fns"][fid] = {
        "module": module,
        "name": name,
        "params": [list(x) for x in params],
        "data_path": data_path,
        "path_style": path_style,
        "const": const,
        "reads": [],
        "stmts": [],
        "comment": "c0",
    }
    p["order"][module].append(("fn", fid))
    return fid


def add_cls(p, module, name, method="meth", const=1, var=None, calls=None, attr=None, prop=False):
    """prop: the method is a property (read as an attribute) that also has a setter (a second function of the same name in the class body)."""
    cid = "c_" + name
    p["classes"][cid] = {"module": module, "name": name, "method": method, "const": const, "var": var, "calls": calls, "comment": "c0", "attr": attr}
    if prop:
        p["classes"][cid]["prop"] = True
    p["order"][module].append(("cls", cid))
    return cid


def lit(src, kw=None):
    return {"k": "lit", "src": src, "kw": kw}


def local(i, kw=None):
    return {"k": "local", "i": i, "kw": kw}


def param(name, kw=None):
    return {"k": "param", "name": name, "kw": kw}


def varg(vid, kw=None):
    return {"k": "var", "var": vid, "kw": kw}


def callarg(fid, kw=None):
    """An argument that is itself a call `f()` written inside the argument list."""
    return {"k": "callarg", "fn": fid, "kw": kw}


def s_call(fid, args=()):
    return {"k": "call", "fn": fid, "args": list(args)}


def s_keep(path, fid, args=(), layout="one", path_style="lit"):
    return {"k": "keep", "path": path, "fn": fid, "args": list(args), "layout": layout, "path_style": path_style}


LOAD_FORMS = ["assign", "posarg", "kwarg", "subscript", "format_kw"]


def s_load(path, form="assign"):
    return {"k": "load", "path": path, "form": form}


def s_ref(fid, runner=None, kw=False):
    d = {"k": "ref", "fn": fid}
    if kw:
        d["kw"] = True  # the function object is handed over as a keyword argument
    if runner:
        d["runner"] = runner  # "thread": the untracked runner calls the function in a worker thread
    return d


def s_lambda_keep(path, const):
    return {"k": "lambda_keep", "path": path, "const": const}


def s_lambda_call(const):
    return {"k": "lambda_call", "const": const}


def s_nested_def(const, vid=None, fn=None, form=None):
    """A function defined inside the body and called there; optionally it reads a variable / calls a (parameterless) helper.
    form: None (free names), "default" / "lambda_default" (captured as defaults of same-named parameters), "shadow" (same-named parameter)."""
    d = {"k": "nested_def", "const": const, "var": vid}
    if form:
        d["form"] = form
    if fn is not None:
        d["fn"] = fn
    return d


def s_block(const, inside=False):
    """A loop followed by a statement that is either inside or after the loop body (differs by indentation only)."""
    return {"k": "block", "const": const, "inside": inside}


def s_clsref(cid):
    """The class is handed over by name to an untracked runner that instantiates it and calls its method."""
    return {"k": "clsref", "cls": cid}


def s_clsattr(cid):
    """Reads a class-level constant through the class name (no instance, no call): x = K.LEVEL"""
    return {"k": "clsattr", "cls": cid}


def s_lazy_call():
    """Call into the program's lazily imported top-level module (p["lazy"]) through a function-local import."""
    return {"k": "lazy_call"}


def add_setvar(p, module, readers, frozen=False):
    """A module-level set of strings read (sorted) by the given functions of that module; never edited."""
    src = "{'alpha', 'beta', 'gamma', 'delta', 'epsilon', 'zeta', 'eta', 'theta'}"
    p["setvar"] = {"module": module, "name": "SET_OF_NAMES", "src": "frozenset(%s)" % src if frozen else src}
    for fid in readers:
        assert p["fns"][fid]["module"] == module
        p["fns"][fid]["reads_setvar"] = True


def add_lazy(p, const=1, var="3"):
    p["lazy"] = {"name": p["pkg"] + "_lz", "const": const, "var": var, "comment": "c0"}
    return p["lazy"]


def lazy_modules(p):
    return [p["lazy"]["name"]] if p.get("lazy") else []


def lazy_text(p):
    z = p["lazy"]
    return "# lazily imported top-level module\nfrom vp import vlog\n\nLZ_VAR = %s\n\n\ndef lz_helper():\n    # %s\n    vlog.hit(\"lz_helper\")\n    return (\"lazy\", %d, LZ_VAR)\n" % (z["var"], z["comment"], z["const"])


def s_method(cid, arg_src):
    return {"k": "method", "cls": cid, "arg": arg_src}


# ---------------------------------------------------------------------------
# rendering


def modname(p, m):
    return p["pkg"] + "." + m


def _import_form(p, a, b, need_bare=False):
    f = p["imports"].get(a + "->" + b, "from_import")
    if need_bare and f not in BARE_FORMS:
        f = "from_import"
    return f


def _mod_alias(b):
    return "mod_" + b.replace(".", "_")


def _rel_prefix(a, b):
    """Relative import prefix from module a to module b (both relative to pkg root)."""
    depth = a.count(".")
    return "." * (depth + 1)


class _Ctx(object):
    def __init__(self, p, module):
        self.p = p
        self.module = module
        self.imports = []  # lines
        self.alias_assigns = []
        self.local_imports = []  # import statements written inside the body of the function being rendered

    def add(self, line):
        if line not in self.imports:
            self.imports.append(line)

    def fn_expr(self, fid, need_bare=False):
        p = self.p
        f = p["fns"][fid]
        b = f["module"]
        if b == self.module:
            # optionally through a module-level alias defined right after the function (name_al = name)
            return f["name"] + "_al" if f.get("alias") else f["name"]
        form = _import_form(p, self.module, b, need_bare)
        if getattr(self, "fn_form", None) and (not need_bare or self.fn_form in BARE_FORMS):
            form = self.fn_form  # the function being rendered spells its own cross-module references this way
        full = modname(p, b)
        if form == "from_import":
            self.add("from %s import %s" % (full, f["name"]))
            return f["name"]
        if form == "from_import_as":
            self.add("from %s import %s as %s_al" % (full, f["name"], f["name"]))
            return f["name"] + "_al"
        if form == "rel_from":
            self.add("from %s%s import %s" % (_rel_prefix(self.module, b), b, f["name"]))
            return f["name"]
        if form == "alias_assign":
            self.add("from %s import %s as _%s_orig" % (full, f["name"], f["name"]))
            line = "%s_as = _%s_orig" % (f["name"], f["name"])
            if line not in self.alias_assigns:
                self.alias_assigns.append(line)
            return f["name"] + "_as"
        if form == "import_mod_as":
            self.add("import %s as %s" % (full, _mod_alias(b)))
            return "%s.%s" % (_mod_alias(b), f["name"])
        if form == "from_pkg_import_mod":
            parent, _, leaf = full.rpartition(".")
            self.add("from %s import %s as %s" % (parent, leaf, _mod_alias(b)))
            return "%s.%s" % (_mod_alias(b), f["name"])
        if form == "rel_mod":
            parent = _rel_prefix(self.module, b) + (b.rpartition(".")[0])
            leaf = b.rpartition(".")[2]
            self.add("from %s import %s as %s" % (parent, leaf, _mod_alias(b)))
            return "%s.%s" % (_mod_alias(b), f["name"])
        if form == "import_full":
            self.add("import %s" % full)
            return "%s.%s" % (full, f["name"])
        if form in ALIASED_LOCAL_FORMS:
            parent, _, leaf = full.rpartition(".")
            line, expr = {
                "local_from_import": ("from %s import %s" % (full, f["name"]), f["name"]),
                "local_import_as": ("import %s as %s" % (full, _mod_alias(b)), "%s.%s" % (_mod_alias(b), f["name"])),
                "local_from_pkg_import_mod": ("from %s import %s" % (parent, leaf), "%s.%s" % (leaf, f["name"])),
            }[form]
            if line not in self.local_imports:
                self.local_imports.append(line)
            return expr
        if form == "local_import_full":
            # `import pkg.mod` written inside the calling function, the callee used by its full dotted name
            if "import %s" % full not in self.local_imports:
                self.local_imports.append("import %s" % full)
            return "%s.%s" % (full, f["name"])
        raise ValueError(form)

    def cls_expr(self, cid):
        c = self.p["classes"][cid]
        if c["module"] == self.module:
            return c["name"]
        self.add("from %s import %s" % (modname(self.p, c["module"]), c["name"]))
        return c["name"]

    def var_expr(self, vid, access):
        p = self.p
        v = p["vars"][vid]
        b = v["module"]
        if access == "modattr":
            # access through the module object, also inside the defining module's siblings
            if b == self.module:
                self.add("import %s as %s" % (modname(p, b), _mod_alias(b) + "_self"))
                return "%s.%s" % (_mod_alias(b) + "_self", v["name"])
            self.add("import %s as %s" % (modname(p, b), _mod_alias(b)))
            return "%s.%s" % (_mod_alias(b), v["name"])
        if b == self.module:
            return v["name"]
        self.add("from %s import %s" % (modname(p, b), v["name"]))
        return v["name"]


def _path_expr(ctx, path, style, prelude, name=None):
    if style == "lit":
        return repr(path)
    name = name or "PATH_" + hashlib.md5(path.encode()).hexdigest()[:6].upper()
    if style == "var":
        line = "%s = %r" % (name, path)
    else:
        ctx.add("import pathlib")
        line = "%s = pathlib.Path(%r)" % (name, path)
    if line not in prelude:
        prelude.append(line)
    return name


def _arg_src(ctx, fn, a):
    if a["k"] == "lit":
        s = a["src"]
    elif a["k"] == "local":
        s = "x%d" % a["i"]
    elif a["k"] == "param":
        s = a["name"]
    elif a["k"] == "var":
        s = ctx.var_expr(a["var"], "bare")
    elif a["k"] == "callarg":
        s = ctx.fn_expr(a["fn"]) + "()"
    else:
        raise ValueError(a)
    return ("%s=%s" % (a["kw"], s)) if a.get("kw") else s


def _raise_line(f):
    """raise of a registered exception object: with a message, without arguments (str(e) == ''), or with an empty text."""
    msg = f["fail"].get("msg", "text")
    args = {"text": ", 'boom from %s'" % f["name"], "none": "", "empty": ", ''", "multiline": ", 'boom\\nfrom %s'" % f["name"]}.get(msg, "")
    mk = "vlog.make_exc(%r, %s%s)" % (f["name"], f["fail"]["cls"], args)
    if msg == "chained":
        # raised with an explicit cause
        return "    raise vlog.make_exc(%r, %s, 'boom from %s') from vlog.make_exc(%r, ValueError, 'root cause')" % (f["name"], f["fail"]["cls"], f["name"], f["name"] + ":cause")
    if msg == "while_handling":
        # raised while another error is being handled (implicit context)
        return "    try:\n        raise vlog.make_exc(%r, KeyError, 'first problem')\n    except KeyError:\n        raise vlog.make_exc(%r, %s, 'boom from %s')" % (f["name"] + ":cause", f["name"], f["fail"]["cls"], f["name"])
    return "    raise " + mk


def render_fn(p, fid, ctx, prelude):
    f = p["fns"][fid]
    ctx.local_imports = ["import dds"] if f.get("local_dds") else []
    ctx.fn_form = f.get("import_form")
    lines = _render_fn_lines(p, fid, ctx, prelude)
    ctx.fn_form = None
    at = [i for i, l in enumerate(lines) if l.startswith("def ")][0] + 2
    lines[at:at] = ["    " + l for l in ctx.local_imports]
    return "\n".join(lines) + "\n"


def _render_fn_lines(p, fid, ctx, prelude):
    f = p["fns"][fid]
    lines = []
    if f["data_path"] is not None:
        lines.append("@dds.data_function(%s)" % _path_expr(ctx, f["data_path"], f.get("path_style", "lit"), prelude, f.get("path_name")))
    if p.get("annotate"):
        # type annotations spelled with names imported from typing (they say nothing about what the function computes)
        ctx.add("from typing import Any, Optional, Tuple")
        ps = ", ".join(["%s: Optional[Any]" % n if d is None else "%s: Optional[Any] = %s" % (n, d) for n, d in f["params"]] + ["dv%d: Any = %s" % (j, ctx.var_expr(vid, "bare")) for j, vid in enumerate(f.get("default_vars", []))])
        lines.append("def %s(%s) -> Tuple:" % (f["name"], ps))
    else:
        ps = ", ".join([n if d is None else "%s=%s" % (n, d) for n, d in f["params"]] + ["dv%d=%s" % (j, ctx.var_expr(vid, "bare")) for j, vid in enumerate(f.get("default_vars", []))])
        lines.append("def %s(%s):" % (f["name"], ps))
    lines.append("    # %s" % f["comment"])
    lines.append("    vlog.hit(%r)" % f["name"])
    lines.append("    r = [%r, %d%s]" % (f["name"], f["const"], "".join(", " + n for n, _ in f["params"])))
    # a comprehension: its target is local to the function whatever the module defines under that name
    lines.append("    r.append([cv * 2 for cv in (1, 2)])")
    if f.get("comp_twin"):
        # ... here the target carries the name of a module variable that the function reads as well
        lines.append("    r.append([%s * 3 for %s in (1, 2)])" % ((ctx.var_expr(f["comp_twin"], "bare"),) * 2))
    if f.get("reads_setvar") and p.get("setvar") and p["setvar"]["module"] == f["module"]:
        # a module variable of a type whose iteration order depends on the interpreter's hash seed (never edited)
        lines.append("    r.append(sorted(%s))" % p["setvar"]["name"])
    if f.get("calls_ext") and p.get("ext"):
        # a call into non-accepted code (its result is dropped: whatever that code does, this function's value stays)
        ctx.add("from %s import ext_helper" % p["ext"]["pkg"])
        lines.append("    ext_helper()")
    if f.get("ext_alias") and p.get("ext"):
        # a function of the non-accepted package used under a local alias name (the alias stays, what it names may change)
        ctx.add("from %s import %s as ext_pick" % (p["ext"]["pkg"], f["ext_alias"]))
        lines.append("    r.append(ext_pick())")
    if f.get("uses_display_methods"):
        # method calls on displays, comprehensions, formatted strings and an immediately called lambda
        lines.append("    r.append(({\"a\": 1}.get(\"a\"), [3, 1].index(1), f\"v{1}\".upper(), (1, 2).count(1), [q for q in (1, 2)].count(2), {1, 2}.union({3}) == {1, 2, 3}, (lambda q: q + 1)(2)))")
    if f.get("uses_builtins"):
        # calls of Python builtins (elsewhere a module variable may legitimately carry one of these names)
        lines.append("    r.append((max(1, 2), format(3), list(filter(None, (0, 1))), sorted([2, 1])))")
    for (vid, access) in f["reads"]:
        lines.append("    r.append(%s)" % ctx.var_expr(vid, access))
    for j, vid in enumerate(f.get("default_vars", [])):
        # a parameter that no caller supplies: its default is the value of a module variable
        lines.append("    r.append(dv%d)" % j)
    if f.get("fail") and f["fail"].get("when") == "start":
        lines.append(_raise_line(f))
    chained = None
    for i, s in enumerate(f["stmts"]):
        k = s["k"]
        nlines = len(lines)
        if k == "call":
            args = ", ".join(_arg_src(ctx, f, a) for a in s["args"])
            lines.append("    x%d = %s(%s)" % (i, ctx.fn_expr(s["fn"]), args))
        elif k == "keep" and s.get("cond"):
            # the kept call sits in a branch that a (tracked, boolean) module variable switches on and off
            pe = _path_expr(ctx, s["path"], s.get("path_style", "lit"), prelude)
            parts = [pe, ctx.fn_expr(s["fn"], need_bare=True)] + [_arg_src(ctx, f, a) for a in s["args"]]
            lines.append("    x%d = None" % i)
            lines.append("    if %s:" % ctx.var_expr(s["cond"], "bare"))
            lines.append("        x%d = dds.keep(%s)" % (i, ", ".join(parts)))
        elif k == "keep":
            pe = _path_expr(ctx, s["path"], s.get("path_style", "lit"), prelude)
            parts = [pe, ctx.fn_expr(s["fn"], need_bare=True)] + [_arg_src(ctx, f, a) for a in s["args"]]
            if s.get("layout") == "multi" and len(parts) > 2:
                lines.append("    x%d = dds.keep(%s," % (i, ", ".join(parts[:2])))
                for q in parts[2:-1]:
                    lines.append("                  %s," % q)
                lines.append("                  %s)" % parts[-1])
            elif s.get("layout") == "multi2" and len(parts) > 2:
                lines.append("    x%d = dds.keep(" % i)
                for q in parts[:-1]:
                    lines.append("        %s," % q)
                lines.append("        %s" % parts[-1])
                lines.append("    )")
            else:
                lines.append("    x%d = dds.keep(%s)" % (i, ", ".join(parts)))
        elif k == "load":
            le = "dds.load(%s)" % _path_expr(ctx, s["path"], s.get("path_style", "lit"), prelude)
            form = s.get("form", "assign")
            if form == "posarg":
                le = "vlog.ident(%s)" % le
            elif form == "kwarg":
                le = "vlog.ident(v=%s)" % le
            elif form == "subscript":
                le = "(%s, 0)[0]" % le
            elif form == "format_kw":
                le = "(\"{d}\".format(d=%s), %s)" % (le, le)
            lines.append("    x%d = %s" % (i, le))
        elif k == "ref":
            lines.append("    x%d = vlog.%s(%s%s)" % (i, "call0_thread" if s.get("runner") == "thread" else "call0", "f=" if s.get("kw") else "", ctx.fn_expr(s["fn"], need_bare=True)))
        elif k == "lambda_keep":
            lines.append("    x%d = dds.keep(%r, lambda: (\"lam\", %d))" % (i, s["path"], s["const"]))
        elif k == "lambda_call":
            lines.append("    lam%d = lambda: (\"lam\", %d)" % (i, s["const"]))
            lines.append("    x%d = lam%d()" % (i, i))
        elif k == "nested_def":
            form = s.get("form")
            extra = ""
            params = []
            callargs = ""
            if s.get("var"):
                ve = ctx.var_expr(s["var"], "bare")
                extra = ", " + ve
                if form in ("default", "lambda_default"):
                    # the module variable is captured as the default of a same-named parameter of the inner function
                    params.append("%s=%s" % (ve, ve))
                elif form == "shadow":
                    # a same-named parameter of the inner function; the enclosing function hands the module variable over
                    params.append(ve)
                    callargs = ve
                elif form == "local_twin":
                    # the inner function has a local variable of its own that carries the name of the module variable
                    # (which the enclosing function reads as well)
                    extra = ", len(%s)" % ve
            if s.get("fn"):
                fe = ctx.fn_expr(s["fn"], need_bare=bool(form))
                extra += ", %s()" % fe
                if form in ("default", "lambda_default"):
                    params.append("%s=%s" % (fe, fe))
            if form == "lambda_default":
                lines.append("    inner%d = lambda %s: (\"inner\", %d%s)" % (i, ", ".join(params), s["const"], extra))
            else:
                lines.append("    def inner%d(%s):" % (i, ", ".join(params)))
                if form == "local_twin" and s.get("var"):
                    lines.append("        %s = (\"local to inner\", %d)" % (ctx.var_expr(s["var"], "bare"), s["const"]))
                lines.append("        return (\"inner\", %d%s)" % (s["const"], extra))
            lines.append("    x%d = inner%d(%s)" % (i, i, callargs))
        elif k == "nested_eval":
            if s.get("spelling") == "eval":
                ctx.add("from dds import eval")
                lines.append("    x%d = eval(%s)" % (i, ctx.fn_expr(s["fn"], need_bare=True)))
            else:
                lines.append("    x%d = dds.eval(%s)" % (i, ctx.fn_expr(s["fn"], need_bare=True)))
        elif k == "method":
            c = p["classes"][s["cls"]]
            lines.append("    x%d = %s(%s).%s%s" % (i, ctx.cls_expr(s["cls"]), s["arg"], c["method"], "" if c.get("prop") else "()"))
        elif k == "clsref":
            lines.append("    x%d = vlog.run_cls(%s)" % (i, ctx.cls_expr(s["cls"])))
        elif k == "clsattr":
            lines.append("    x%d = %s.LEVEL" % (i, ctx.cls_expr(s["cls"])))
        elif k == "block":
            lines.append("    x%d = []" % i)
            lines.append("    for bi in (0, 1):")
            lines.append("        x%d.append(%d)" % (i, s["const"]))
            lines.append("%sx%d.append(%d)" % ("        " if s["inside"] else "    ", i, s["const"] + 1))
        elif k == "lazy_call":
            zn = p["lazy"]["name"]
            if "import %s" % zn not in ctx.local_imports:
                ctx.local_imports.append("import %s" % zn)
            lines.append("    x%d = %s.lz_helper()" % (i, zn))
        else:
            raise ValueError(k)
        # two statements written as one expression: the first one is the receiver of a method call, the second one its
        # argument (Python evaluates the receiver first): x = <first>.count(<second>)
        if s.get("chain_next") and len(lines) == nlines + 1 and lines[-1].startswith("    x%d = " % i):
            chained = lines.pop()[len("    x%d = " % i):]
            lines.append("    x%d = None" % i)
        elif chained is not None and len(lines) == nlines + 1 and lines[-1].startswith("    x%d = " % i):
            second = lines.pop()[len("    x%d = " % i):]
            lines.append("    x%d = (%s).count(%s)" % (i, chained, second))
            chained = None
        lines.append("    r.append(x%d)" % i)
    if f.get("fail") and f["fail"].get("when", "end") == "end":
        lines.append(_raise_line(f))
    if f.get("ret") == "empty_str":
        lines.append("    return \"\"")
    elif f.get("ret") == "empty_bytes":
        lines.append("    return b\"\"")
    elif f.get("ret") == "crlf_str":
        # text that starts with a byte-order mark and has Windows and old-Mac line ends (what a spreadsheet export
        # looks like; a text-mode file or a BOM-stripping decoder would change it)
        lines.append("    return \"\\ufeffrows\\r\\n\" + \"|\".join(repr(y) for y in r) + \"\\r\\nprogress 50%\\rprogress 100%\\n\"")
    elif f.get("ret") == "big_str":
        # a text of ~100 kB (more than one read of a remote file system's "head" call returns)
        lines.append("    return \"|\".join(repr(y) for y in r) + \"\\n\" + \"0123456789abcde\\u00e9\\n\" * 6000 + \"end of %s\"" % f["name"])
    elif f.get("ret") == "big_bytes":
        lines.append("    return \"|\".join(repr(y) for y in r).encode(\"utf-8\") + bytes(range(256)) * 400 + b\"end of %s\"" % f["name"])
    elif f.get("ret") == "str":
        lines.append("    return \"|\".join(repr(y) for y in r)")
    else:
        lines.append("    return tuple(r)")
    return lines


def render_cls(p, cid, ctx):
    c = p["classes"][cid]
    if c.get("base_ext") and p.get("ext"):
        # the class derives from a class of the non-accepted package (whose code is none of the analysis's business)
        ctx.add("from %s import ExtBase" % p["ext"]["pkg"])
    lines = ["class %s(%s):" % (c["name"], "ExtBase" if c.get("base_ext") and p.get("ext") else "object"), "    # %s" % c.get("comment", "c0")] + (["    LEVEL = %s" % (ctx.var_expr(c["attr_var"], "bare") if c.get("attr_var") else "%d" % c["attr"]), ""] if c.get("attr") is not None or c.get("attr_var") else []) + ["    def __init__(self, a):", "        self.a = a", ""] + (["    @property"] if c.get("prop") else []) + ["    def %s(self):" % c["method"],
             "        vlog.hit(%r)" % (c["name"] + "." + c["method"])]
    items = ["%r" % (c["name"] + "." + c["method"]), "%d" % c["const"], "self.a"]
    if c.get("var"):
        items.append(ctx.var_expr(c["var"], "bare"))
    if c.get("calls"):
        ctx.local_imports = []
        items.append("%s()" % ctx.fn_expr(c["calls"]))
        lines += ["        " + l for l in ctx.local_imports]
    lines.append("        return (%s,)" % ", ".join(items))
    if c.get("prop"):
        lines += ["", "    @%s.setter" % c["method"], "    def %s(self, value):" % c["method"], "        self.a = value"]
    return "\n".join(lines) + "\n"


def render_module(p, m):
    ctx = _Ctx(p, m)
    prelude = []
    blocks = []
    for kind, xid in p["order"][m]:
        if kind == "var":
            v = p["vars"][xid]
            blocks.append(("var", xid, "%s = %s\n" % (v["name"], v["value"])))
        elif kind == "fn":
            t = render_fn(p, xid, ctx, prelude)
            if p["fns"][xid].get("alias"):
                t += "\n\n%s_al = %s\n" % (p["fns"][xid]["name"], p["fns"][xid]["name"])
            blocks.append(("fn", xid, t))
        elif kind == "cls":
            blocks.append(("cls", xid, render_cls(p, xid, ctx)))
        elif kind == "extra":
            blocks.append(("extra", xid, p["extras"][xid]))
    if p.get("setvar") and p["setvar"]["module"] == m:
        prelude.append("%s = %s" % (p["setvar"]["name"], p["setvar"]["src"]))
    head = ["# module %s" % m, "import datetime", "import pathlib", "from pathlib import PurePosixPath", "import dds", "from vp import vlog"] + [i for i in ctx.imports if i != "import pathlib"]
    text = "\n".join(head) + "\n\n" + "".join(l + "\n" for l in ctx.alias_assigns) + "".join(l + "\n" for l in prelude) + "\n"
    for kind, xid, t in blocks:
        text += t + "\n\n"
    return text


def render(p):
    """{relative file path: text} for the accepted package (+ the non-accepted sibling if any)."""
    files = {}
    pk = p["pkg"]
    files[pk + "/__init__.py"] = "# package %s\n" % pk
    dirs = set()
    for m in p["modules"]:
        parts = m.split(".")
        for i in range(1, len(parts)):
            d = "/".join(parts[:i])
            if d not in dirs:
                dirs.add(d)
                files["%s/%s/__init__.py" % (pk, d)] = "# sub-package\n"
    for m in p["modules"]:
        files["%s/%s.py" % (pk, m.replace(".", "/"))] = render_module(p, m)
    if p.get("lazy"):
        files[p["lazy"]["name"] + ".py"] = lazy_text(p)
    if p.get("ext"):
        e = p["ext"]
        files[e["pkg"].replace(".", "/") + "/__init__.py"] = "# not accepted\nEXT_VAR = %s\n\n\ndef ext_helper():\n    # %s\n    return (\"ext\", %d)\n\n\ndef ext_helper_two():\n    return (\"ext-two\", 2)\n\n\nclass ExtBase(object):\n    # %s\n    def base_info(self):\n        return (\"extbase\", %d)\n" % (e["var"], e["comment"], e["const"], e["comment"], e["const"])
    return files


def import_order(p):
    out = []
    if p.get("ext"):
        out.append(p["ext"]["pkg"])
    out += [modname(p, m) for m in p["modules"]]
    return out


# ---------------------------------------------------------------------------
# ground truth


def fn_text(p, fid):
    """T(G) as rendered (import aliases resolved for module `G.module`)."""
    f = p["fns"][fid]
    ctx = _Ctx(p, f["module"])
    return render_fn(p, fid, ctx, [])


def refs_of(p, fid, runtime=False):
    """Functions that fid refers to (runtime=True: only those it actually calls when it runs)."""
    out = []
    for s in p["fns"][fid]["stmts"]:
        for a in s.get("args", []):
            if a["k"] == "callarg":
                out.append(a["fn"])
        if s["k"] in ("call", "keep", "ref") or (s["k"] == "nested_def" and s.get("fn")):
            out.append(s["fn"])
        if s["k"] in ("method", "clsref") or (s["k"] == "clsattr" and not runtime):
            # a class is one unit: a function that refers to it depends on everything its body refers to
            c = p["classes"][s["cls"]]
            if c.get("calls"):
                out.append(c["calls"])
    return out


def reach(p, fid, runtime=False):
    seen = []
    todo = [fid]
    while todo:
        x = todo.pop()
        if x in seen:
            continue
        seen.append(x)
        todo += refs_of(p, x, runtime)
    return seen


def kept_nodes(p):
    """{path: node} for every kept node reachable from the entry: data functions and keep sites."""
    nodes = {}
    for fid in reach(p, p["entry"]):
        f = p["fns"][fid]
        if f["data_path"] is not None:
            nodes[f["data_path"]] = {"path": f["data_path"], "fn": fid, "site": None, "args": [], "kind": "data"}
        for i, s in enumerate(f["stmts"]):
            if s["k"] == "keep":
                nodes[s["path"]] = {"path": s["path"], "fn": s["fn"], "site": (fid, i), "args": s["args"], "kind": "keep"}
            if s["k"] == "lambda_keep":
                nodes[s["path"]] = {"path": s["path"], "fn": None, "site": (fid, i), "args": [], "kind": "lambda", "const": s["const"]}
    return nodes


def producers(p):
    return kept_nodes(p)


def _own_items(p, fid, memo, stack=(), externals=None):
    """own(K) contents for function fid: texts, variable values, cones of loaded producers."""
    if fid in memo:
        return memo[fid]
    items = []
    for g in reach(p, fid):
        f = p["fns"][g]
        items.append(("T", f["name"], fn_text_nomod(p, g)))
        if f.get("ext_alias"):
            items.append(("XA", f["name"], f["ext_alias"]))
        for vid in [x[0] for x in f["reads"]] + list(f.get("default_vars", [])):
            v = p["vars"][vid]
            items.append(("V", v["module"], v["name"], v["value"]))
        for s in f["stmts"]:
            if s["k"] == "nested_def" and s.get("var"):
                v = p["vars"][s["var"]]
                items.append(("V", v["module"], v["name"], v["value"]))
            if s["k"] in ("method", "clsattr", "clsref"):
                c = p["classes"][s["cls"]]
                items.append(("C", c["name"], render_cls_nomod(p, s["cls"])))
                for cv_ in (c.get("var"), c.get("attr_var")):
                    if cv_:
                        v = p["vars"][cv_]
                        items.append(("V", v["module"], v["name"], v["value"]))
            if s.get("cond"):
                v = p["vars"][s["cond"]]
                items.append(("V", v["module"], v["name"], v["value"]))
            for a in s.get("args", []):
                if a["k"] == "var":
                    v = p["vars"][a["var"]]
                    items.append(("V", v["module"], v["name"], v["value"]))
            if s["k"] == "lazy_call":
                items.append(("Z", p["lazy"]["name"], p["lazy"]["const"], p["lazy"]["var"]))
            if s["k"] == "load":
                prod = kept_nodes(p).get(s["path"])
                if prod is not None and s["path"] not in stack:
                    items.append(("L", s["path"], node_fp(p, prod, stack + (s["path"],), "()", externals)))
                else:
                    # produced outside this evaluation: what the path currently serves
                    items.append(("L", s["path"], (externals or {}).get(s["path"], "never-kept")))
    memo[fid] = sorted(set(json.dumps(x) for x in items))
    return memo[fid]


def fn_text_nomod(p, fid):
    """Function text with module-dependent import aliases normalised (for relocation-stable fingerprints)."""
    return fn_text(p, fid)


def render_cls_nomod(p, cid):
    c = p["classes"][cid]
    return render_cls(p, cid, _Ctx(p, c["module"]))


def _is_runtime_arg(a):
    return a["k"] != "lit"


def _ctx_items(p, efid, memo, entry_args_src, stack=(), externals=None):
    """ctx(E): the whole enclosing function, what it references, its bound values, its caller's ctx if it has run-time args."""
    items = list(_own_items(p, efid, memo, stack, externals))
    f = p["fns"][efid]
    items.append(json.dumps(("Eargs", f["name"], entry_args_src if efid == p["entry"] else "")))
    # E's caller: every site that calls/keeps E with run-time arguments
    for g, gf in p["fns"].items():
        for s in gf["stmts"]:
            if s["k"] in ("call", "keep") and s["fn"] == efid and g != efid:
                if any(_is_runtime_arg(a) for a in s["args"]) or s["k"] == "call" and f["params"]:
                    if g not in stack:
                        items += _ctx_items(p, g, memo, entry_args_src, stack + (g,), externals)
                else:
                    items.append(json.dumps(("Ebound", f["name"], [a.get("src") for a in s["args"]])))
    return items


def node_fp(p, node, stack=(), entry_args_src="()", externals=None):
    """Fingerprint of cone(K) (DESIGN.md 4.1) computed from the generator's ground truth only.
    `externals`: path -> token of what a path produced outside this evaluation currently serves."""
    memo = {}
    if node["kind"] == "lambda":
        fid, i = node["site"]
        return h(["lambda", node["const"], _ctx_items(p, fid, memo, entry_args_src, (), externals)])
    own = _own_items(p, node["fn"], memo, stack, externals)
    binding = [(a["k"], a.get("src"), a.get("kw"), a.get("i")) for a in node["args"]]  # i: which local of the enclosing function feeds a run-time argument
    f = p["fns"][node["fn"]]
    items = ["own", own, binding, [d for _, d in f["params"]]]
    if node["site"] is not None and any(_is_runtime_arg(a) for a in node["args"]):
        items.append(("ctx", sorted(set(_ctx_items(p, node["site"][0], memo, entry_args_src, (), externals)))))
    if node["site"] is None and node["fn"] == p["entry"]:
        items.append(("entry_args", entry_args_src))
    return h(items)


def all_fps(p, entry_args_src="()"):
    return dict((path, node_fp(p, n, (), entry_args_src)) for path, n in kept_nodes(p).items())


# ---------------------------------------------------------------------------
# edits: each returns (new program, description with kind + site)


def clone(p):
    return copy.deepcopy(p)


def e_set_var(p, vid, idx=1):
    q = clone(p)
    v = q["vars"][vid]
    choices = VAR_KINDS[v["kind"]]
    cur = v["value"]
    cands = [c for c in choices if c != cur]
    new = cands[(idx - 1) % len(cands)]
    v["value"] = new
    return q, {"kind": "set_var", "var": v["name"], "var_kind": v["kind"], "site": ["V", v["name"]], "from": cur, "to": new}


def e_set_lazy(p, what):
    """Edits the lazily imported module: the constant in its function or its variable."""
    q = clone(p)
    if what == "const":
        q["lazy"]["const"] += 1000
    else:
        q["lazy"]["var"] = str(int(q["lazy"]["var"]) + 1)
    return q, {"kind": "set_lazy_" + what, "site": ["Z", q["lazy"]["name"]]}


def e_toggle_indent(p, fid, si):
    """Moves the last statement of a block into / out of the loop: only leading whitespace of one line changes."""
    q = clone(p)
    st = q["fns"][fid]["stmts"][si]
    assert st["k"] == "block"
    st["inside"] = not st["inside"]
    return q, {"kind": "toggle_indent", "fn": q["fns"][fid]["name"], "site": ["T", q["fns"][fid]["name"]]}


def e_set_cls_attr(p, cid, delta=1000):
    q = clone(p)
    q["classes"][cid]["attr"] += delta
    return q, {"kind": "set_cls_attr", "cls": q["classes"][cid]["name"], "site": ["T", q["classes"][cid]["name"]]}


def e_set_const(p, fid, delta=1000):
    q = clone(p)
    q["fns"][fid]["const"] += delta
    return q, {"kind": "set_const", "fn": q["fns"][fid]["name"], "site": ["T", q["fns"][fid]["name"]]}


def e_comment(p, fid):
    q = clone(p)
    q["fns"][fid]["comment"] += "x"
    return q, {"kind": "comment", "fn": q["fns"][fid]["name"], "site": ["T", q["fns"][fid]["name"]]}


def e_set_lit(p, fid, si, ai, new_src):
    q = clone(p)
    a = q["fns"][fid]["stmts"][si]["args"][ai]
    old = a["src"]
    a["src"] = new_src
    s = q["fns"][fid]["stmts"][si]
    return q, {"kind": "set_lit", "fn": q["fns"][fid]["name"], "site": ["T", q["fns"][fid]["name"]], "stmt": si, "arg": ai, "from": old, "to": new_src,
               "layout": s.get("layout", "one"), "has_runtime_arg": any(_is_runtime_arg(x) for x in s["args"]), "arg_line": _arg_line(s, ai)}


def _arg_line(s, ai):
    """On which physical line (0 = line of the call) the literal argument sits."""
    lay = s.get("layout", "one")
    if lay == "one" or s["k"] != "keep":
        return 0
    if lay == "multi":
        return ai + 1 if True else 0  # args start on continuation lines; path and fn on the first line
    if lay == "multi2":
        return ai + 3
    return 0


def e_add_extra(p, module, pos, tag):
    q = clone(p)
    xid = "extra_%s" % tag
    # besides an unrelated function and variable, (re)define at module level the name that the functions use
    # as a comprehension target: it is unrelated to them as well
    q["extras"][xid] = "def unrelated_%s():\n    return %r\n\n\nUNRELATED_%s = 1\ncv = %d\n" % (tag, tag, tag.upper(), len(q["extras"]) + 5)
    order = q["order"][module]
    pos = max(0, min(len(order), pos))
    order.insert(pos, ("extra", xid))
    return q, {"kind": "add_unrelated", "module": module, "pos": pos, "site": ["X"]}


def e_reorder(p, module):
    q = clone(p)
    order = q["order"][module]
    # move the last function definition to the front of the function block (variables stay first)
    fn_idx = [i for i, (k, _) in enumerate(order) if k == "fn"]
    if len(fn_idx) >= 2:
        last = order.pop(fn_idx[-1])
        order.insert(fn_idx[0], last)
    return q, {"kind": "reorder", "module": module, "site": ["X"]}


def e_edit_ext(p, what):
    q = clone(p)
    if what == "const":
        q["ext"]["const"] += 1
    elif what == "var":
        q["ext"]["var"] = str(int(q["ext"]["var"]) + 1)
    else:
        q["ext"]["comment"] += "x"
    return q, {"kind": "edit_non_accepted", "what": what, "site": ["X"]}


def e_move_fn(p, fid, new_module):
    """Moves the definition of a function to another (already existing, earlier imported) accepted module."""
    q = clone(p)
    f = q["fns"][fid]
    old = f["module"]
    q["order"][old].remove(("fn", fid))
    q["order"][new_module].append(("fn", fid))
    f["module"] = new_module
    return q, {"kind": "move_function", "fn": f["name"], "from": old, "to": new_module, "site": ["X"]}


def e_relocate(p, new_pkg):
    q = clone(p)
    q["pkg"] = new_pkg
    return q, {"kind": "relocate", "site": ["X"]}


def relocatable(p):
    return not any(f == "import_full" for f in p["imports"].values()) and not p.get("accept_by_module")
